"""C05 — evaluation is simultaneous substitution, composable and order-free."""
import json
from fractions import Fraction

import exprs as E
import hier as H
import lib

PROP = "C05"
LEVEL = "proof"
THEOREM_FILE = "properties/C05.v"
CASE_DEPS = ["theories/CompileTop.v"]
RULE = ("stream eval: seeded random hierarchies are compiled by the real code, then evaluated with seeded assignments (total "
        "numeric, partial, expression-valued incl. values that mention other assigned names, user function implementations), "
        "once as listed, once in a permuted order, and (numeric) split into two successive calls; inside Coq the real results are "
        "compared with the model's evaluate (tie) and with C05 itself on the real trees (spec): value at rho = value of the "
        "compiled tree at rho-after-assignment, permutation/splitting invariance, remaining input_params; "
        "non-trivial = at least 2 assigned names or an expression-valued assignment; distinct by canonical JSON hash")
TRUSTED_BASE = []
ASSUMPTIONS = ["15-significant-digit clause: the numeric folding (sympy N/round) is an oracle; checked by the stream with relative tolerance 1e-13, not proved"]

FUNS = {"inc": (["x"], E.op("add", E.sym("x"), E.num(1))),
        "sq": (["x"], E.op("mul", E.sym("x"), E.sym("x"))),
        "lin2": (["x", "y"], E.op("add", E.sym("x"), E.op("mul", E.num(2), E.sym("y")))),
        "ceil3": (["x"], E.op("ceil", E.op("mul", E.num(3), E.sym("x")))),
        "parity": (["x"], E.op("mod", E.sym("x"), E.num(2))),
        "floor3y": (["x", "y"], E.op("add", E.op("floor", E.op("mul", E.num(3), E.sym("x"))), E.sym("y"))),
        # closures of one factory (one code object, different captured values): see impl_fns._make_scale
        "scale2": (["x"], E.op("add", E.op("mul", E.num(2), E.sym("x")), E.num(1))),
        "scale3": (["x"], E.op("add", E.op("mul", E.num(3), E.sym("x")), E.num(1))),
        "scale5": (["x"], E.op("add", E.op("mul", E.num(5), E.sym("x")), E.num(1)))}


def value_expr(v):
    kind, val = v[0], v[1]
    if kind == "int":
        return E.num(int(val))
    if kind == "float":
        return E.num(Fraction(float(val)))
    return v[2]     # ["str", text, expr-json]


def gen_assign(rng, params, mode, fnames=(), big_ok=False):
    keys = list(params)
    rng.shuffle(keys)
    if mode != "total":
        keys = keys[: rng.randint(1, max(1, len(keys)))]
    out = []
    for k in keys:
        base = k.rsplit(".", 1)[-1]
        if base in H.POW_EXPONENTS:
            out.append([k, ["int", rng.randint(0, 4)]])
        elif base in H.COUNT_NAMES:
            out.append([k, ["int", rng.randint(0, 5)]])
        elif base.startswith("#") or base in H.SIZE_POOL:
            out.append([k, ["int", rng.randint(1, 9)]])
        elif mode == "expr" and rng.random() < 0.6:
            others = [x for x in params if x != k and "#" not in x and "." not in x and x not in H.COUNT_NAMES]
            # names assigned in the same call are mentioned more often than fresh ones (crossed assignments)
            pool = others + others + ["z", "t"]
            e = H.gen_expr(rng, pool, 1)
            if fnames and rng.random() < 0.5:
                # the assigned value itself calls a user function (the implementation must reach it too, also where the
                # routine's expression is the bare parameter)
                f = rng.choice(list(fnames))
                arg = rng.choice([E.num(rng.randint(1, 5)), E.sym(rng.choice(pool))])
                e = E.fun(f, arg) if f == "f" else E.fun(f, arg, E.num(rng.randint(1, 3)))
            out.append([k, ["str", E.to_str(e), e]])
        else:
            r = rng.random()
            if r < 0.06 and big_ok:
                out.append([k, ["int", rng.choice([2 ** 60 + 1, 10 ** 16 + 1, 3 ** 40])]])    # beyond what a double holds exactly
            elif r < 0.5:
                out.append([k, ["int", rng.randint(1, 9)]])
            elif r < 0.75 or (fnames and r < 0.9):
                # (with user functions around, mostly values without a finite decimal expansion: k/3, k/7)
                fr = Fraction(rng.randint(1, 9), rng.choice([2, 3, 4]) if not fnames else rng.choice([3, 3, 7, 6]))
                out.append([k, ["str", f"{fr.numerator}/{fr.denominator}", E.num(fr)]])
            else:
                out.append([k, ["float", rng.choice([0.5, 2.25, 1.75, 3.125])]])
    return out


def closed_form_named(rng):
    """root(N, M) -> loop (repeated N times, closed form with the PLACEHOLDER named like the parameter: count N, sum N*(N+1)/2,
    num_terms_symbol N) -> step; and a sibling `tail` listed after it.  Parameters passed under the same or crossed names."""
    def leaf(name, params, val):
        return {"name": name, "type": None, "input_params": params, "local_variables": [], "linked_params": [], "ports": [],
                "resources": [{"name": "T", "type": "additive", "value": val}], "connections": [], "repetition": None, "children": []}
    out = []
    for ph, inner in (("N", "N"), ("N", "M"), ("K", "K")):
        tri = E.op("div", E.op("mul", E.sym(ph), E.op("add", E.sym(ph), E.num(1))), E.num(2))
        step = leaf("step", ["N", "M"], E.op("add", E.op("mul", E.num(2), E.sym("N")), E.sym("M")))
        loop = {"name": "loop", "type": None, "input_params": [ph, "N", "M"] if ph == "K" else ["N", "M"], "local_variables": [],
                "linked_params": [["N", [["step", "N"]]], ["M", [["step", "M"]]]], "ports": [], "resources": [], "connections": [],
                "repetition": {"count": E.sym(ph), "sequence": {"kind": "closed_form", "sum": tri, "prod": None, "num_terms_symbol": ph}},
                "children": [step]}
        tail = leaf("tail", ["N", "M"], E.op("add", E.op("mul", E.sym("N"), E.sym("M")), E.num(1)))
        links = [["N", [["loop", inner], ["tail", "N"]]], ["M", [["loop", "M" if inner == "N" else "N"], ["tail", "M"]]]]
        if ph == "K":
            links = [["N", [["loop", "K"], ["loop", "N"], ["tail", "N"]]], ["M", [["loop", "M"], ["tail", "M"]]]]
        out.append({"name": "root", "type": None, "input_params": ["N", "M"], "local_variables": [], "linked_params": links, "ports": [],
                    "resources": [], "connections": [], "repetition": None, "children": [loop, tail]})
    return out


def huge_value_routines():
    """Values beyond the range of a double (2**n at n = 1100, 0.5*k*10**n at n = 400 or 1100): still numbers to 15 significant digits."""
    leaf = {"name": "lookup", "type": None, "input_params": ["n", "k"], "local_variables": [], "linked_params": [],
            "ports": [{"name": "out_0", "direction": "output", "size": E.op("pow", E.num(2), E.sym("n"))}],
            "resources": [{"name": "T", "type": "additive", "value": E.op("pow", E.num(2), E.sym("n"))},
                          {"name": "Q", "type": "additive", "value": E.op("mul", E.op("mul", ["n", 1, 2, "float"], E.sym("k")), E.op("pow", E.num(10), E.sym("n")))},
                          {"name": "info", "type": "other", "value": E.op("add", E.op("mul", E.sym("k"), E.sym("n")), E.num(1))}],
            "connections": [], "repetition": None, "children": []}
    root = {"name": "hugeroot", "type": None, "input_params": ["n", "k"], "local_variables": [],
            "linked_params": [["n", [["lookup", "n"]]], ["k", [["lookup", "k"]]]],
            "ports": [{"name": "out_0", "direction": "output", "size": None}], "resources": [], "connections": [["lookup.out_0", "out_0"]],
            "repetition": None, "children": [leaf]}
    # ... and values far BELOW one: an error probability 1e-20, a rotation angle 1.23456789012e-10 (exact fractions; the cost
    # k * eps and the angle itself are numbers to 15 significant digits, not to 15 decimal places)
    tleaf = {"name": "synth", "type": None, "input_params": ["eps", "k"], "local_variables": [], "linked_params": [], "ports": [],
             "resources": [{"name": "err", "type": "additive", "value": E.op("mul", E.sym("k"), E.sym("eps"))},
                           {"name": "angle", "type": "other", "value": E.op("div", E.sym("eps"), E.num(3))},
                           {"name": "seventh", "type": "other", "value": E.op("div", E.sym("eps"), E.num(7))},
                           {"name": "T", "type": "additive", "value": E.op("add", E.op("mul", E.sym("k"), E.num(7)), E.num(1))}],
             "connections": [], "repetition": None, "children": []}
    troot = {"name": "tinyroot", "type": None, "input_params": ["eps", "k"], "local_variables": [],
             "linked_params": [["eps", [["synth", "eps"]]], ["k", [["synth", "k"]]]], "ports": [], "resources": [], "connections": [],
             "repetition": None, "children": [tleaf]}
    return [root, troot]


def constant_named_inputs(rng):
    """Inputs NAMED like the spellings evaluate() recognises in assigned VALUES (E, pi, e, Pi): in a routine's own
    expressions they are ordinary symbols (`oo` is not: the parser reads it as infinity); left unassigned they stay untouched, whatever else is assigned."""
    out = []
    for a, b in (("E", "pi"), ("e", "Pi"), ("pi", "E")):
        kid = {"name": "kid", "type": None, "input_params": ["x", a], "local_variables": [], "linked_params": [], "ports": [],
               "resources": [{"name": "T", "type": "additive", "value": E.op("add", E.op("mul", E.sym("x"), E.sym(a)), E.num(rng.randint(1, 5)))},
                             {"name": "bare", "type": "other", "value": E.op("mul", E.num(2), E.sym(a))}],
               "connections": [], "repetition": None, "children": []}
        out.append({"name": "constroot", "type": None, "input_params": ["N", a, b], "local_variables": [],
                    "linked_params": [["N", [["kid", "x"]]], [a, [["kid", a]]]], "ports": [],
                    "resources": [{"name": "budget", "type": "additive", "value": E.op("mul", E.sym("N"), E.sym(a))},
                                  {"name": "depth", "type": "other", "value": E.op("add", E.sym("N"), E.sym(b))},
                                  {"name": "both", "type": "other", "value": E.op("add", E.sym(a), E.sym(b))}],
                    "connections": [], "repetition": None, "children": [kid]})
    return out


def build_cases(rng, n, max_depth, p_rep=0.3, repeated_only=False):
    routines = []
    while len(routines) < n:
        r = H.gen_hierarchy(rng, max_depth=rng.randint(1, max_depth), p_rep=p_rep)
        if repeated_only and '"repetition": {' not in json.dumps(r):
            continue
        if H.count_nodes(r) <= 8:
            if r["input_params"] and rng.random() < 0.3:
                # a call of f / g on a third of a parameter: with an implementation that looks at the last digit
                # (ceiling, parity) the value handed to it must be the exact rational
                p0 = E.sym(rng.choice(r["input_params"]))
                arg = E.op("div", p0, E.num(rng.choice([3, 7])))
                which = "f" if rng.random() < 0.6 else "g"
                r["resources"].append({"name": "zf" + which, "type": "other",
                                       "value": E.fun("f", arg) if which == "f" else E.fun("g", arg, E.num(rng.randint(1, 3)))})
            routines.append(r)
    routines += closed_form_named(rng)
    routines += huge_value_routines()
    routines += constant_named_inputs(rng)
    comp = lib.run_impl("hier-compile", [{"routine": r} for r in routines], per_case_timeout=60)
    cases = []
    two_const = 0
    for r, c in zip(routines, comp):
        if not c.get("ok"):
            continue
        params = c["tree"]["input_params"]
        if not params:
            continue
        mode = rng.choice(["total", "total", "partial", "expr", "expr"]) if not repeated_only else "total"
        fns = [[f, rng.choice(["inc", "sq", "ceil3", "parity", "scale2", "scale3", "scale5"]) if f == "f" else rng.choice(["lin2", "floor3y"])] for f in rng.sample(H.FUNCS, rng.randint(1, 2))] if rng.random() < 0.4 else None
        # (very large integers only where nothing is repeated: a repetition count of 2**60 is not a test of evaluation)
        big_ok = '"repetition": {' not in json.dumps(r)
        zf = [x["name"][2:] for x in r["resources"] if x["name"] in ("zff", "zfg")]
        if zf:
            fns = [[zf[0], rng.choice(["ceil3", "ceil3", "parity"]) if zf[0] == "f" else "floor3y"]]
            mode = rng.choice(["total", "partial"])
        assign = gen_assign(rng, params, mode, [f for f, _ in fns] if fns else (), big_ok=big_ok)
        if r["name"] == "hugeroot":
            fns, mode = None, "total"
            assign = [["n", ["int", rng.choice([400, 1100])]], ["k", ["int", rng.randint(1, 9)]]]
        if r["name"] == "tinyroot":
            fns, mode = None, "total"
            # (a FLOAT: the values that follow go through the 15-digit folding)
            assign = [["eps", ["float", rng.choice([1e-20, 1.23456789012e-10, 5e-9, 2.5e-13])]], ["k", ["int", rng.randint(2, 9)]]]
        if r["name"] == "constroot":
            fns, mode = None, "partial"
            assign = rng.choice([[["N", ["int", rng.randint(1, 9)]]], [], [["N", ["int", 2]], [params[-1], ["int", 3]]]])
        if mode in ("total", "partial") and assign and not fns and r["name"] not in ("hugeroot", "tinyroot", "constroot") and '["f", ' not in json.dumps(r) and (two_const < 4 or rng.random() < 0.05):
            # (not under an uninterpreted function: the model's f(20-digit value) and the code's f(15-digit float) are different calls)
            # one value written over TWO mathematical constants in spellings evaluate() recognises (pi*e, Pi + E): both are constants
            PI_, E_ = ["f", "<const>pi", []], ["f", "<const>E", []]
            text, tree = rng.choice([("pi*e", E.op("mul", PI_, E_)), ("pi + E", E.op("add", PI_, E_)), ("Pi + 2*e", E.op("add", PI_, E.op("mul", E.num(2), E_)))])
            cand = [i for i, (kk, _) in enumerate(assign) if kk.rsplit(".", 1)[-1] not in H.COUNT_NAMES + H.POW_EXPONENTS and "#" not in kk]
            if cand:
                i = rng.choice(cand)
                assign[i] = [assign[i][0], ["str", text, tree]]
                two_const += 1
        case = {"routine": r, "assign": assign, "mode": mode}
        if len(assign) >= 2:
            perm = list(assign)
            rng.shuffle(perm)
            if perm == assign:
                perm = perm[::-1]
            case["perm"] = perm
        numeric = all(v[0] != "str" or v[2][0] == "n" for _, v in assign)
        if numeric and len(assign) >= 2:
            k = rng.randint(1, len(assign) - 1)
            case["split"] = [assign[:k], assign[k:]]
        if fns:
            case["functions"] = fns
        cases.append(case)
    return cases


def env_to_coq(assign):
    return E.coq_list([f"({E.coq_string(k)}, {E.to_coq(value_expr(v))})" for k, v in assign])


def fm_to_coq(fns):
    items = []
    for f, impl in fns:
        ps, body = FUNS[impl]
        items.append(f"({E.coq_string(f)}, ({E.coq_list([E.coq_string(p) for p in ps])}, {E.to_coq(body)}))")
    return E.coq_list(items)


def emit(pairs):
    lines = [lib.CASE_HEADER.format(imports="RepModel Routine Compile CompileTop", gen_imports="")]
    items = []
    for k, (case, imp) in enumerate(pairs):
        if not imp.get("ok"):
            items.append("([1%nat], [])" if imp.get("exc") != "Timeout" else "([2%nat], [])")
            continue
        lines.append(f"Definition c{k} : ctree expr := {H.ctree_to_coq(imp['compiled'])}.")
        for nm in ("e1", "e2", "e3"):
            lines.append(f"Definition {nm}_{k} : impl_result := {H.impl_to_coq(imp[nm]) if imp[nm].get('exc') != 'skip' else '(IErr ' + E.coq_string('skip') + ')'}.")
        names = set(H.tree_input_params(imp["compiled"]))
        for _, v in case["assign"]:
            names |= E.fv(value_expr(v))
        pts = H.points_to_coq(H.make_points(lib.Rng(f"pts-{lib.case_hash(case)}"), names, 3))
        inex = "true" if imp.get("inexact") or any(v[0] == "float" or "<const>" in json.dumps(v) for _, v in case["assign"]) else "false"
        if case["routine"]["name"] == "tinyroot":
            inex = "false"      # values far below one: compared RELATIVELY (to 12 digits), an absolute tolerance would accept 0
        self_ref = "true" if case["mode"] == "expr" else "false"
        item = (f"(check_eval_case c{k} {env_to_coq(case['assign'])} {fm_to_coq(case.get('functions', []))} {self_ref} "
                f"e1_{k} e2_{k} e3_{k} {inex} {pts})")
        if case["routine"]["name"] == "tinyroot":
            # ... and to 15 SIGNIFICANT digits: the reported angle = eps/3 and err = k*eps against their exact values
            a = dict((kk, value_expr(v)) for kk, v in case["assign"])
            eps, kq = Fraction(a["eps"][1], a["eps"][2]), Fraction(a["k"][1], a["k"][2])
            q = lambda fr: f"({fr.numerator} # {fr.denominator})"
            item = (f"(let r := {item} in (fst r, (snd r ++ [sig15 e1_{k} \"synth\" \"angle\" {q(eps / 3)}; "
                    f"sig15 e1_{k} \"synth\" \"seventh\" {q(eps / 7)}; sig15 e1_{k} \"synth\" \"err\" {q(kq * eps)}])%list))")
        items.append(item)
    lines.append("Definition results : list (list nat * list nat) :=\n " + E.coq_list(items) + ".\n")
    lines.append("Eval vm_compute in results.\n")
    return "\n".join(lines)


def nontrivial(case):
    return len(case["assign"]) >= 2 or any(v[0] == "str" for _, v in case["assign"])


def distribution(cases):
    d = {"mode": {}, "with_perm": 0, "with_split": 0, "with_functions": 0, "assigned_names": {}}
    for c in cases:
        d["mode"][c["mode"]] = d["mode"].get(c["mode"], 0) + 1
        d["with_perm"] += "perm" in c
        d["with_split"] += "split" in c
        d["with_functions"] += "functions" in c
        k = str(min(len(c["assign"]), 6))
        d["assigned_names"][k] = d["assigned_names"].get(k, 0) + 1
    return d


def mk_stream(cases, name="eval"):
    return {"name": name, "impl_stream": "eval", "cases": cases, "emit": emit, "shard_size": 10,
            "nontrivial": nontrivial, "distribution": distribution, "timeout": 90}


def streams(tier, seed):
    rng = lib.Rng(f"C05-{seed}")
    n = 140 if tier == "quick" else 2500
    return [mk_stream(lib.load_corpus(PROP, "eval") + build_cases(rng, n, 3))]


def replay_streams(payload):
    return [mk_stream([payload["case"]])]
