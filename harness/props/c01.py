"""C01 — compilation preserves the meaning of every resource."""
import exprs as E
import hier as H
import lib

PROP = "C01"
LEVEL = "proof"
THEOREM_FILE = "properties/C01.v"
CASE_DEPS = ["theories/CompileTop.v", "theories/DenSrc.v", "theories/Checks.v"]
RULE = ("stream hier-compile: seeded random routine hierarchies (depth<=4, fan-out<=3, random wiring DAGs, pass-throughs, through "
        "ports, direct and deep links, unlinked parameters, locals, all five repetition kinds, names drawn per scope from a 4-name "
        "pool so clashes are the norm); the real compile_routine is compared inside Coq (vm_compute, exact rationals, 4 points) "
        "with the compile model at every node/resource/port (tie) and with the bottom-up denotation of the source (spec); "
        "non-trivial = at least 2 routine nodes; distinct by canonical JSON hash")
TRUSTED_BASE = []
ASSUMPTIONS = []


def emit(pairs, check_fn=None):
    lines = [lib.CASE_HEADER.format(imports="RepModel Routine Compile CompileTop DenSrc Checks", gen_imports="")]
    items = []
    for k, (case, imp) in enumerate(pairs):
        if case.get("expect_refusal"):
            # a source the compiler has to refuse as a whole (a resource no repetition can carry, with the switch that would
            # let it through turned OFF): refused, never compiled with something the source does not define
            refused = (not imp.get("ok")) and imp.get("exc") == "BartiqCompilationError"
            items.append("([], [0%nat])" if refused else "([], [1%nat])")
            continue
        if case.get("expect_ok") and not imp.get("ok"):
            # a hand-built, valid hierarchy (C10: every valid hierarchy is compiled, with its structure): a refusal is a violation
            items.append("([], [1%nat])")
            continue
        if case.get("null_resource"):
            # a resource declared without a value: the source is refused as a whole; it is never compiled with the resource
            # silently left out (C10: every resource of the source is in the compiled hierarchy)
            items.append("([], [1%nat])" if imp.get("ok") else "([], [0%nat])")
            continue
        dl = case.get("derived_leaf")
        src = H.with_leaf_resource(case["routine"], dl) if dl else case["routine"]
        lines.append(f"Definition r{k} : routine := {H.routine_to_coq(src)}.")
        if dl:
            lines.append(f"Definition o{k} : routine := {H.routine_to_coq(case['routine'])}.")
        lines.append(f"Definition i{k} : impl_result := {H.impl_to_coq(imp)}.")
        names = set(case.get("point_names", []))
        if imp.get("ok"):
            names |= H.tree_input_params(imp["tree"])
        rng = lib.Rng(f"pts-{lib.case_hash(case)}")
        pts = H.points_to_coq(H.make_points(rng, names, 4))
        # ("relative": values far below one are around; compared to 12 digits RELATIVELY, an absolute tolerance would accept 0)
        inex = "true" if imp.get("inexact") and not case.get("relative") else "false"
        if dl:
            # a derived resource calculated on the leaves: compared with the routine whose leaves declare it, the resource
            # reaching a node through repetitions only
            ty = {"additive": "RAdditive", "multiplicative": "RMultiplicative"}[dl["type"]]
            items.append(f"(check_derived_leaf o{k} r{k} {E.coq_string(dl['name'])} {ty} {E.coq_string(dl['of'])} "
                         f"{E.coq_q(dl['a'])} {E.coq_q(dl['b'])} i{k} {inex} {pts})")
        elif check_fn:
            items.append(f"({check_fn} r{k} i{k} {inex} {pts})")
        else:
            items.append(f"(tie_compile r{k} i{k} {inex} {pts}, spec_compile r{k} i{k} {inex} {pts})")
    lines.append("Definition results : list (list nat * list nat) :=\n " + E.coq_list(items) + ".\n")
    lines.append("Eval vm_compute in results.\n")
    return "\n".join(lines)


def nontrivial(case):
    return H.count_nodes(case["routine"]) >= 2


def distribution(cases):
    d = {"depth": {}, "nodes": {}, "with_repetition": 0, "with_scope_clash": 0, "with_deep_link": 0, "with_through": 0}
    for c in cases:
        r = c["routine"]
        k = str(H.depth_of(r))
        d["depth"][k] = d["depth"].get(k, 0) + 1
        n = H.count_nodes(r)
        b = "1" if n == 1 else "2-4" if n <= 4 else "5-9" if n <= 9 else "10+"
        d["nodes"][b] = d["nodes"].get(b, 0) + 1
        s = str(r)
        d["with_repetition"] += "'repetition': {" in s
        d["with_scope_clash"] += H.count_clashes(r) > 0
        d["with_through"] += "'through'" in s
    return d


def gen_cases(rng, n, max_depth, **kw):
    out = []
    while len(out) < n:
        r = H.gen_hierarchy(rng, max_depth=rng.randint(1, max_depth), **kw)
        if H.count_nodes(r) > 14:
            continue
        out.append({"routine": r, "native": rng.random() < 0.5})
    return out


def mk_stream(cases, check_fn=None):
    return {"name": "hier-compile", "impl_stream": "hier-compile", "cases": cases,
            "emit": (lambda pairs: emit(pairs, check_fn)), "shard_size": 12,
            "nontrivial": nontrivial, "distribution": distribution, "timeout": 60}


def streams(tier, seed):
    rng = lib.Rng(f"C01-{seed}")
    n = 160 if tier == "quick" else 3000
    md = 3 if tier == "quick" else 4
    # two thirds general hierarchies, one third wiring-heavy ones (four children, fan-in, children listed in any order)
    cases = gen_cases(rng, n - n // 3, md) + gen_cases(rng, n // 3, md, max_children=4, p_shuffle=1.0, p_rep=0.1, p_through=0.25)
    return [mk_stream(lib.load_corpus(PROP, "hier-compile") + cases)]


def replay_streams(payload):
    return [mk_stream([payload["case"]])]
