"""C02 — port sizes follow the wires."""
import lib
from props import c01

PROP = "C02"
LEVEL = "proof"
THEOREM_FILE = "properties/C02.v"
CASE_DEPS = c01.CASE_DEPS
RULE = ("stream hier-compile (same generator as C01: seeded random hierarchies, depth<=4, random wiring DAGs, pass-throughs, through "
        "ports, deep links, repetitions, names shared between scopes); spec = both ends of every connection of every node of the real compiled tree have equal sizes at 4 rational points, and every port size equals the bottom-up reading (incoming wire / declared expression in the subroutine's scope); tie = model vs real compile_routine; "
        "non-trivial = at least 2 routine nodes; distinct by canonical JSON hash")
TRUSTED_BASE = []
ASSUMPTIONS = []
nontrivial = c01.nontrivial


def streams(tier, seed):
    rng = lib.Rng(f"C02-{seed}")
    n = 160 if tier == "quick" else 3000
    # wiring-heavy: up to 4 children per node, always listed in a random (mostly non-topological) order
    cases = lib.load_corpus(PROP, "hier-compile") + c01.gen_cases(rng, n, 3 if tier == "quick" else 4, max_children=4, p_shuffle=1.0, p_rep=0.1, p_through=0.25)
    return [c01.mk_stream(cases, "check_wires")]


def replay_streams(payload):
    return [c01.mk_stream([payload["case"]], "check_wires")]
