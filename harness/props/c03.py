"""C03 — subroutine-local names never capture or leak."""
import exprs as E
import hier as H
import lib
from props import c05

PROP = "C03"
LEVEL = "proof"
THEOREM_FILE = "properties/C03.v"
CASE_DEPS = ["theories/CompileTop.v", "theories/Checks.v"]
RULE = ("stream hier-rename: a seeded random hierarchy and the same hierarchy with ONE node's parameters, local variables and "
        "port-size symbols renamed injectively onto the shared name pool (so the new names collide with names used by ancestors, "
        "siblings, descendants and top-level inputs); both are compiled by the real code and compared inside Coq at every "
        "node/resource/port, reading renamed top-level inputs through the renaming (spec), plus model-vs-code on the renamed "
        "routine (tie). stream eval-mutual: expression-valued assignments that mention other assigned names. "
        "non-trivial = the renaming moves at least one name onto a name used in another scope; distinct by canonical JSON hash")
TRUSTED_BASE = []
ASSUMPTIONS = ["renaming onto iterator / num_terms symbols is outside the stream (the code rejects substitutions that touch an iterator)"]

POOL = H.PARAM_POOL + H.LOCAL_POOL + H.SIZE_POOL + ["z", "lam"]


def gen_cases(rng, n, max_depth):
    out = []
    while len(out) < n:
        r = H.gen_hierarchy(rng, max_depth=rng.randint(1, max_depth))
        if H.count_nodes(r) > 10:
            continue
        paths = [p for p in H.all_paths(r) if H.bound_names(H.node_at(r, p))]
        if not paths:
            continue
        path = rng.choice(paths)
        names = H.bound_names(H.node_at(r, path))
        pool = [x for x in dict.fromkeys(POOL)]
        rng.shuffle(pool)
        images = pool[:len(names)]
        pi = dict(zip(names, images))
        if all(k == v for k, v in pi.items()):
            continue
        out.append({"routine": r, "path": path, "pi": pi})
        if rng.random() < 0.2 and any(n.get("repetition") for n, _ in H._nodes(r)):
            # compiled with an additive resource DERIVED on the leaves: it enters every repetition above a leaf, whose scope
            # the renaming may be about
            out[-1]["derived_leaf"] = {"name": "dgates", "type": "additive", "of": rng.choice(["T", "G", "Q"]), "a": rng.randint(2, 3), "b": rng.randint(0, 5)}
    return out


def derived_cases(rng, n, max_depth):
    """A repeated routine (not the root) whose scope is renamed ONTO names of the top-level routine, the hierarchy compiled with
    an additive resource derived on the leaves: the repeated sum over the child's derived value is written in top-level names
    already, and must not be read through the repeated routine's scope again."""
    out = []
    tries = 0
    while len(out) < n and tries < 40 * n:
        tries += 1
        r = H.gen_hierarchy(rng, max_depth=rng.randint(2, max_depth), p_rep=0.6)
        if H.count_nodes(r) > 10:
            continue
        paths = [p for p in H.all_paths(r) if p and H.node_at(r, p).get("repetition") and H.bound_names(H.node_at(r, p))]
        if not paths:
            continue
        path = rng.choice(paths)
        names = H.bound_names(H.node_at(r, path))
        tops = [x for x in r["input_params"]]
        pool = tops + [x for x in dict.fromkeys(POOL) if x not in tops]
        head = pool[:max(len(tops), 1)]
        rng.shuffle(head)
        images = (head + pool[len(head):])[:len(names)]
        pi = dict(zip(names, images))
        if all(k == v for k, v in pi.items()):
            continue
        out.append({"routine": r, "path": path, "pi": pi,
                    "derived_leaf": {"name": "dgates", "type": "additive", "of": rng.choice(["T", "G", "Q"]), "a": rng.randint(2, 3), "b": rng.randint(0, 5)}})
    return out


def iterator_capture_cases():
    """An ancestor's name renamed ONTO the iterator symbol of a custom sequence further down, the name reaching the repeated
    routine inside a compound value (a local variable 2*N + 1, a child's cost): refused, or the same numbers -- never a sum
    whose dummy captured the outer symbol."""
    def node(name, params=(), links=(), kids=(), res=(), rep=None, locs=()):
        return {"name": name, "type": None, "input_params": list(params), "local_variables": [list(l) for l in locs], "linked_params": [list(l) for l in links],
                "ports": [], "resources": list(res), "connections": [], "repetition": rep, "children": list(kids)}
    out = []
    for it in ("j", "i", "k"):
        for via_local in (True, False):
            body = node("body", params=["q"], res=[{"name": "T", "type": "additive", "value": E.sym("q")}])
            loop = node("loop", params=["p", "n"], links=[["p", [["body", "q"]]]], kids=[body],
                        rep={"count": E.sym("n"), "sequence": {"kind": "custom", "term_expression": E.op("add", E.sym(it), E.num(1)), "iterator_symbol": it}})
            w = E.op("add", E.op("mul", E.num(2), E.sym("N")), E.num(1))
            if via_local:
                root = node("root", params=["N", "K"], locs=[["w", w]], links=[["w", [["loop", "p"]]], ["K", [["loop", "n"]]]], kids=[loop])
            else:
                mid = node("mid", params=["a", "b"], locs=[["v", E.op("add", E.sym("a"), E.num(3))]], links=[["v", [["loop", "p"]]], ["b", [["loop", "n"]]]], kids=[loop])
                root = node("root", params=["N", "K"], locs=[["w", w]], links=[["w", [["mid", "a"]]], ["K", [["mid", "b"]]]], kids=[mid])
            for pi in ({"N": it}, {"N": "M"}, {"K": it}):
                out.append({"routine": root, "path": [], "pi": pi, "refusable": True})
    return out


def emit(pairs):
    lines = [lib.CASE_HEADER.format(imports="RepModel Routine Compile CompileTop Checks", gen_imports="")]
    items = []
    for k, (case, imp) in enumerate(pairs):
        if "a" not in imp:
            items.append("([1%nat], [])")
            continue
        r2 = H.rename_at(case["routine"], case["path"], case["pi"])
        lines.append(f"Definition r{k} : routine := {H.routine_to_coq(r2)}.")
        lines.append(f"Definition i{k} : impl_result := {H.impl_to_coq(imp['a'])}.")
        lines.append(f"Definition j{k} : impl_result := {H.impl_to_coq(imp['b'])}.")
        prefix = ".".join(case["path"])
        back = [((prefix + "." if prefix else "") + v, (prefix + "." if prefix else "") + x) for x, v in case["pi"].items()]
        names = set()
        for t in ("a", "b"):
            if imp[t].get("ok"):
                names |= H.tree_input_params(imp[t]["tree"])
        pts = H.points_to_coq(H.make_points(lib.Rng(f"pts-{lib.case_hash(case)}"), names, 3))
        inex = "true" if imp["a"].get("inexact") or imp["b"].get("inexact") else "false"
        backc = E.coq_list([f"({E.coq_string(a)}, {E.coq_string(b)})" for a, b in back])
        dl = case.get("derived_leaf")
        if dl:
            items.append(f"(check_rename_case_d {E.coq_string(dl['name'])} RAdditive {E.coq_string(dl['of'])} {E.coq_q(dl['a'])} {E.coq_q(dl['b'])} "
                         f"r{k} i{k} j{k} {backc} {inex} {pts})")
        elif case.get("refusable"):
            items.append(f"(check_rename_case_refusable r{k} i{k} j{k} {backc} {inex} {pts})")
        else:
            items.append(f"(check_rename_case r{k} i{k} j{k} {backc} {inex} {pts})")
    lines.append("Definition results : list (list nat * list nat) :=\n " + E.coq_list(items) + ".\n")
    lines.append("Eval vm_compute in results.\n")
    return "\n".join(lines)


def nontrivial(case):
    r, path, pi = case["routine"], case["path"], case["pi"]
    others = set()
    for p in H.all_paths(r):
        if p != path:
            others |= set(H.bound_names(H.node_at(r, p)))
    return any(v in others and v != k for k, v in pi.items())


def distribution(cases):
    d = {"renamed_node_depth": {}, "onto_foreign_name": 0}
    for c in cases:
        k = str(len(c["path"]))
        d["renamed_node_depth"][k] = d["renamed_node_depth"].get(k, 0) + 1
        d["onto_foreign_name"] += nontrivial(c)
    return d


def mk_stream(cases):
    return {"name": "hier-rename", "impl_stream": "hier-rename", "cases": cases, "emit": emit, "shard_size": 10,
            "nontrivial": nontrivial, "distribution": distribution, "timeout": 90}


def mutual_cases(rng, n):
    """Expression-valued assignments that mention other assigned names; in half of them, deliberately, one name gets an
    expression over another name of the same call that is itself assigned a plain NUMBER (N: M + 1, M: 3)."""
    cs = [c for c in c05.build_cases(rng, 3 * n, 2) if c["mode"] == "expr"][:n]
    for c in cs:
        keys = [k for k, _ in c["assign"] if k.rsplit(".", 1)[-1] not in H.COUNT_NAMES + H.POW_EXPONENTS and "#" not in k]
        if len(keys) >= 2 and rng.random() < 0.5:
            a, b = rng.sample(keys, 2)
            e = rng.choice([E.op("add", E.sym(b), E.num(1)), E.op("mul", E.num(2), E.sym(b)), E.op("sub", E.sym(b), E.sym(a))])
            new = []
            for k, v in c["assign"]:
                if k == a:
                    new.append([k, ["str", E.to_str(e), e]])
                elif k == b:
                    new.append([k, ["int", rng.randint(2, 9)]])
                else:
                    new.append([k, v])
            c["assign"] = new
            if "perm" in c:
                c["perm"] = list(reversed(new))
            c.pop("split", None)
    # an assigned value that mentions a caller's symbol spelled like the ITERATOR of a custom sequence somewhere in the hierarchy
    # (K := it + 1): refused, or substituted as it stands -- never bound by the iterator of the compiled sum
    extra = [c for c in c05.build_cases(rng, 6 * n, 2, p_rep=0.7, repeated_only=True) if c["mode"] in ("expr", "total", "partial")]
    k = 0
    for c in extra:
        its = [nd["repetition"]["sequence"]["iterator_symbol"] for nd, _ in H._nodes(c["routine"])
               if nd.get("repetition") and nd["repetition"]["sequence"]["kind"] == "custom"]
        keys = [kk for kk, _ in c["assign"] if kk.rsplit(".", 1)[-1] not in H.COUNT_NAMES + H.POW_EXPONENTS and "#" not in kk]
        if not its or not keys or c.get("functions"):
            continue
        a = rng.choice(keys)
        e = rng.choice([E.sym(its[0]), E.op("add", E.sym(its[0]), E.num(1)), E.op("mul", E.num(2), E.sym(its[0]))])
        c["assign"] = [[kk, (["str", E.to_str(e), e] if kk == a else v)] for kk, v in c["assign"]]
        c["mode"] = "expr"
        c.pop("split", None)
        if "perm" in c:
            c["perm"] = list(reversed(c["assign"]))
        cs.append(c)
        k += 1
        if k >= max(6, n // 4):
            break
    return cs


def streams(tier, seed):
    rng = lib.Rng(f"C03-{seed}")
    n = 120 if tier == "quick" else 2500
    # nested repetitions whose iterators bear the same name (a bound name shadows; it is not a free symbol of the value), the
    # inner routine's parameters renamed onto names of the outer scope
    from props import c07
    nested = [{"routine": c["routine"], "path": ["inner"] if c["routine"]["children"][0]["name"] == "inner" else ["leaf"],
               "pi": ({"N": "K", "R": "N"} if c["routine"]["children"][0]["name"] == "inner" else {"N": "K"})}
              for c in c07.nested_iterator_cases()]
    s1 = mk_stream(lib.load_corpus(PROP, "hier-rename") + nested + iterator_capture_cases() + gen_cases(rng, n, 3) + derived_cases(rng, 30 if tier == "quick" else 500, 3))
    s2 = dict(c05.mk_stream(lib.load_corpus(PROP, "eval") + mutual_cases(rng, 40 if tier == "quick" else 600)), name="eval-mutual")
    return [s1, s2]


def replay_streams(payload):
    if payload.get("stream") == "eval-mutual":
        return [dict(c05.mk_stream([payload["case"]]), name="eval-mutual")]
    return [mk_stream([payload["case"]])]
