"""C14 — operations are pure and reproducible."""
import exprs as E
import hier as H
import lib

PROP = "C14"
LEVEL = "other"
THEOREM_FILE = "properties/C14.v"
CASE_DEPS = ["theories/Verify.v"]
RULE = ("stream repro (monitored runs; a test, not a proof): seeded random hierarchies whose children are listed in a random "
        "(mostly non-topological) order with multi-predecessor children; each is compiled, exported, evaluated and aggregated by "
        "the real code in SEVEN separate processes: PYTHONHASHSEED = 0, 1, 2, 3, 4 cold, PYTHONHASHSEED = 0 after 25 unrelated "
        "compilations, and after the routine's own float twin (integer literals written as 3.0) went through the same calls; in every process every call is made twice and every argument is snapshotted (pickle / model_dump_json) "
        "before and after; spec = all seven exported documents byte-identical, repeated calls equal, no argument modified; "
        "tie (inside Coq) = the exported child order of every node is a topological listing of exactly the source's children; "
        "non-trivial = some node has a child with two predecessors or children listed out of order; distinct by canonical JSON hash")
TRUSTED_BASE = ["the comparison of exported documents across processes is done by the harness in Python (sha256 of model_dump_json)"]
EXPLANATION = ("Monitored differential runs of the real code (six processes per case: five hash seeds cold, one warm), every call made "
               "twice with deep snapshots of all arguments, exported documents compared byte for byte; one small closed Coq theorem "
               "(the processing/export order is a complete topological listing, a function of the document alone). The property lives "
               "mostly in the runtime (aliasing, caches, hash randomisation), which an executable Gallina model cannot exhibit: the level "
               "claimed is a test, partial by nature.")
ASSUMPTIONS = ["what a theorem cannot exhibit here: in-place mutation through aliasing, lru_cache state, interpreter hash randomisation"]

SEEDS = ["0", "1", "2", "3", "4"]


def gen_cases(rng, n):
    out = []
    while len(out) < n:
        r = H.gen_hierarchy(rng, max_depth=rng.randint(1, 3), max_children=4, p_shuffle=1.0, p_rep=0.1)
        if 2 <= H.count_nodes(r) <= 10 and (nontrivial({"routine": r}) or rng.random() < 0.25):
            if rng.random() < 0.3:
                # parameter names that only differ in leading zeros of a digit run, or in letter case: equal under a "natural"
                # or case-insensitive sort key, so that their order would be whatever a set happens to yield
                pi = rng.choice([{"N": "k1", "M": "k01", "x": "r2", "y": "r02"}, {"N": "q", "M": "Q_", "x": "p10", "y": "p010"},
                                 {"N": "a1b2", "M": "a01b2", "x": "a1b02", "y": "a001b2"}])
                for path in list(H.all_paths(r)):
                    r = H.rename_at(r, path, pi)
            out.append({"routine": r})
    return out


def run(cases):
    runs = []
    cases = [dict(c, native=True) for c in cases]     # integer literals are handed over as native ints, not as text
    for hs in SEEDS:
        runs.append(lib.run_impl("repro", cases, per_case_timeout=120, hashseed=hs))
    runs.append(lib.run_impl("repro", [dict(c, warm=25) for c in cases], per_case_timeout=240, hashseed="0"))
    # ... and after the routine's own float twin (every integer literal written as 3.0) has gone through the same calls
    runs.append(lib.run_impl("repro", [dict(c, twin_first=True) for c in cases], per_case_timeout=240, hashseed="0"))
    merged = []
    for k in range(len(cases)):
        rs = [r[k] for r in runs]
        m = {"ok": all(x.get("ok") for x in rs), "runs": [{kk: vv for kk, vv in x.items() if kk != "export"} for x in rs]}
        if m["ok"]:
            m["export"] = rs[0]["export"]
            m["shas"] = [x["export_sha"] for x in rs]
            m["eval_shas"] = [x["eval_sha"] for x in rs]
            m["agg_shas"] = [x.get("agg_sha") for x in rs]
        else:
            m["exc"] = next((x.get("exc") for x in rs if not x.get("ok")), "?")
        merged.append(m)
    return merged


def child_orders(doc_node, acc, path=""):
    acc.append((path, [c["name"] for c in doc_node.get("children", [])]))
    for c in doc_node.get("children", []):
        child_orders(c, acc, path + "/" + c["name"])


def emit(pairs):
    lines = [lib.CASE_HEADER.format(imports="RepModel Routine Compile CompileTop Verify Repro", gen_imports="")]
    items = []
    for k, (case, imp) in enumerate(pairs):
        if not imp.get("ok"):
            # an exception in every process alike is a matter for C17, not for reproducibility
            same = len({r.get("exc") for r in imp["runs"]}) == 1
            items.append("([], [])" if same else "([], [1%nat])")
            continue
        flags = []
        for r in imp["runs"]:
            flags += [not r["mutated_input_doc"], r["compile_repeatable"], r["export_pure"], r["evaluate_pure"],
                      r["evaluate_repeatable"], r["aggregate_pure"], r["aggregate_repeatable"],
                      r.get("same_after_cache_eviction", True), r.get("derived_repeatable", True)]
        spec = [0 if f else 1 for f in flags]
        spec.append(0 if len(set(imp["shas"])) == 1 else 1)          # exported document identical in every process
        spec.append(0 if len(set(imp["eval_shas"])) == 1 else 1)
        spec.append(0 if len(set(imp["agg_shas"])) == 1 else 1)      # ... and so is the exported aggregated document
        lines.append(f"Definition r{k} : routine := {H.routine_to_coq(case['routine'])}.")
        orders = []
        child_orders(imp["export"]["program"], orders)
        oc = E.coq_list([f"({E.coq_string(p)}, {E.coq_list([E.coq_string(n) for n in ns])})" for p, ns in orders])
        items.append(f"(check_export_order r{k} {oc}, {E.coq_list([str(c) + '%nat' for c in spec])})")
    lines.append("Definition results : list (list nat * list nat) :=\n " + E.coq_list(items) + ".\n")
    lines.append("Eval vm_compute in results.\n")
    return "\n".join(lines)


def nontrivial(case):
    def multi(n):
        tg = {}
        for s, t in n["connections"]:
            if "." in s and "." in t:
                tg.setdefault(t.split(".")[0], set()).add(s.split(".")[0])
        return any(len(v) >= 2 for v in tg.values()) or any(multi(c) for c in n["children"])
    return multi(case["routine"])


def distribution(cases):
    return {"multi_predecessor": sum(1 for c in cases if nontrivial(c)), "processes_per_case": len(SEEDS) + 2}


def mk_stream(cases):
    return {"name": "repro", "impl_stream": "repro", "cases": cases, "emit": emit, "shard_size": 15, "run": run,
            "nontrivial": nontrivial, "distribution": distribution}


def streams(tier, seed):
    rng = lib.Rng(f"C14-{seed}")
    n = 60 if tier == "quick" else 600
    return [mk_stream(lib.load_corpus(PROP, "repro") + gen_cases(rng, n))]


def replay_streams(payload):
    return [mk_stream([payload["case"]])]
