"""C09 — results do not depend on listing order."""
import itertools

import exprs as E
import hier as H
import lib

PROP = "C09"
LEVEL = "proof"
THEOREM_FILE = "properties/C09.v"
CASE_DEPS = ["theories/CompileTop.v"]
RULE = ("stream hier-permute: a seeded random hierarchy and the same hierarchy with children, ports, resources, connections, "
        "parameter links (and their targets), input parameters and local variables listed in another order at every level "
        "(thorough: every permutation of the root's children for up to 4 children); both compiled by the real code; spec = equal "
        "resources, port sizes, input_params and retained constraints at every node; tie = model vs code on the permuted "
        "routine; non-trivial = some node has at least 2 children; distinct by canonical JSON hash")
TRUSTED_BASE = []
ASSUMPTIONS = ["qref itself sorts ports/resources/connections/links when a document is loaded; the model does not rely on it"]


def gen_cases(rng, n, max_depth, exhaustive_children=False):
    out = []
    while len(out) < n:
        r = H.gen_hierarchy(rng, max_depth=rng.randint(1, max_depth), max_children=4, mixed_types=rng.choice([0.0, 0.0, 0.3]), p_through=rng.choice([0.1, 0.35]),
                            p_rep=rng.choice([0.2, 0.2, 0.5]))
        if H.count_nodes(r) > 10:
            continue
        if rng.random() < 0.25:
            # two input ports of one subroutine declared with the SAME size symbol: which of them defines the symbol (and which
            # only yields a constraint) must not depend on the order the ports are listed in
            cands = [nd for nd, path in H._nodes(r) if path and len([p for p in nd["ports"] if p["direction"] == "input" and p["size"] and p["size"][0] == "s"]) >= 2]
            if cands:
                nd = rng.choice(cands)
                ps = [p for p in nd["ports"] if p["direction"] == "input" and p["size"] and p["size"][0] == "s"]
                pa, pb = rng.sample(ps, 2)
                pb["size"] = pa["size"]
        if rng.random() < 0.5:
            # a qubits resource on the child of a CONSTANT repetition (it is not carried up), listed anywhere among the child's
            # additive and multiplicative ones: where it is listed changes nothing
            for nd, _ in H._nodes(r):
                rep = nd.get("repetition")
                if (rep and rep["sequence"]["kind"] == "constant" and nd["children"] and not nd["children"][0].get("repetition")
                        and not any(x["name"] == "anc" for x in nd["children"][0]["resources"])):     # (a repeated routine declares no resources of its own)
                    kid = nd["children"][0]
                    kid["resources"].insert(rng.randrange(len(kid["resources"]) + 1), {"name": "anc", "type": "qubits", "value": E.num(rng.randint(1, 4))})
        if rng.random() < 0.25:
            # a cost written over the bare NAME of another resource of the same routine (t_gates: 4*toffolis + ...): the name is no
            # parameter, it stays the symbol it is, wherever the two resources are listed
            cands = [nd for nd, _ in H._nodes(r) if len(nd["resources"]) >= 2 and not nd.get("repetition")]
            if cands:
                nd = rng.choice(cands)
                a, b = rng.sample(nd["resources"], 2)
                taken = set(nd["input_params"]) | {l[0] for l in nd["local_variables"]} | {p["size"][1] for p in nd["ports"] if p["size"] and p["size"][0] == "s"}
                if b["name"] not in taken and a["type"] in ("additive", "other"):
                    a["value"] = E.op("add", a["value"], E.op("mul", E.num(4), E.sym(b["name"])))
        if exhaustive_children and 2 <= len(r["children"]) <= 4:
            for perm in itertools.permutations(range(len(r["children"]))):
                out.append({"routine": r, "seed": rng.randint(0, 10**9), "child_perm": list(perm)})
        else:
            out.append({"routine": r, "seed": rng.randint(0, 10**9)})
            if rng.random() < 0.4:
                out[-1]["reverse"] = True      # the exactly reversed listing: every pairwise order is flipped
            if rng.random() < 0.5:
                out[-1]["as_object"] = True    # the permuted listing handed over as a validated object whose lists keep that order
    return out


def permuted(case):
    return H.permute_lists(case["routine"], lib.Rng(case["seed"]), case.get("child_perm"), reverse=bool(case.get("reverse")))


def emit(pairs):
    lines = [lib.CASE_HEADER.format(imports="RepModel Routine Compile CompileTop", gen_imports="")]
    items = []
    for k, (case, imp) in enumerate(pairs):
        if "a" not in imp:
            items.append("([1%nat], [])")
            continue
        lines.append(f"Definition r{k} : routine := {H.routine_to_coq(permuted(case))}.")
        lines.append(f"Definition i{k} : impl_result := {H.impl_to_coq(imp['a'])}.")
        lines.append(f"Definition j{k} : impl_result := {H.impl_to_coq(imp['b'])}.")
        names = set()
        for t in ("a", "b"):
            if imp[t].get("ok"):
                names |= H.tree_input_params(imp[t]["tree"])
        pts = H.points_to_coq(H.make_points(lib.Rng(f"pts-{lib.case_hash(case)}"), names, 3))
        inex = "true" if imp["a"].get("inexact") or imp["b"].get("inexact") else "false"
        items.append(f"(check_permute_case r{k} i{k} j{k} {inex} {pts})")
    lines.append("Definition results : list (list nat * list nat) :=\n " + E.coq_list(items) + ".\n")
    lines.append("Eval vm_compute in results.\n")
    return "\n".join(lines)


def max_fanout(r):
    return max([len(r["children"])] + [max_fanout(c) for c in r["children"]])


def nontrivial(case):
    return max_fanout(case["routine"]) >= 2


def distribution(cases):
    d = {"max_fanout": {}, "exhaustive_child_perms": 0}
    for c in cases:
        k = str(max_fanout(c["routine"]))
        d["max_fanout"][k] = d["max_fanout"].get(k, 0) + 1
        d["exhaustive_child_perms"] += "child_perm" in c
    return d


def mk_stream(cases):
    return {"name": "hier-permute", "impl_stream": "hier-permute", "cases": cases, "emit": emit, "shard_size": 10,
            "nontrivial": nontrivial, "distribution": distribution, "timeout": 90}


def streams(tier, seed):
    rng = lib.Rng(f"C09-{seed}")
    if tier == "quick":
        cases = gen_cases(rng, 110, 3) + gen_cases(rng, 30, 2, exhaustive_children=True)[:60]
    else:
        cases = gen_cases(rng, 1500, 4) + gen_cases(rng, 400, 3, exhaustive_children=True)
    return [mk_stream(lib.load_corpus(PROP, "hier-permute") + cases)]


def replay_streams(payload):
    return [mk_stream([payload["case"]])]
