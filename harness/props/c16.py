"""C16 — qubit highwater is the maximum over all cuts."""
from fractions import Fraction

import exprs as E
import hier as H
import lib

PROP = "C16"
LEVEL = "proof"
THEOREM_FILE = "properties/C16.v"
CASE_DEPS = ["theories/Checks.v", "theories/Highwater.v"]
RULE = ("stream hier-highwater: seeded random fully wired hierarchies with children listed in execution order, long bypass wires, "
        "pass-throughs, through ports, non-negative integer sizes and local_ancillae resources, compiled by the real code with the "
        "derived resource qubit_highwater; the compiled tree is read in the order the SOURCE lists the children (an execution order; reorder_like); at natural-number points (evaluated in Coq, AND as the all-numeric trees the real evaluate() returns), and at points with some negative parameters at which every port size is still non-negative, every node's reported highwater is compared inside Coq with the "
        "port-level model of calculate_highwater (tie) and with the wire-level cut specification (spec: ancillae + max over the "
        "cut before the first child, bypass + child highwater during each child, the cut after the last child; and >= total "
        "input size, >= total output size); non-trivial = some node has at least 2 children; distinct by canonical JSON hash")
TRUSTED_BASE = []
ASSUMPTIONS = ["port sizes are non-negative at the points used", "each port is an end of exactly one wire (verify_topology)"]


def gen_cases(rng, n, max_depth):
    out = []
    while len(out) < n:
        r = H.gen_hierarchy(rng, max_depth=rng.randint(1, max_depth), max_children=4, p_rep=0.0, p_shuffle=0.0,
                            p_through=0.25, qubits=True, p_constrain=0)   # (a rejected size constraint is C06 business: every case here compiles)
        if H.count_nodes(r) > 12:
            continue
        out.append({"routine": r, "n_eval": 2, "eval_seed": rng.randint(0, 10**9), "native": rng.random() < 0.5})
        if rng.random() < 0.3:
            out[-1]["remap"] = rng.randint(1, 10**6)   # handed over as an edited Routine object (see impl_highwater)
    return out


def make_points(rng, names, n=3):
    pts = []
    for _ in range(n):
        pts.append({nm: [rng.randint(0, 7), 1] for nm in sorted(names)})
    # parameters need not be non-negative, only the port sizes (a child releasing d qubits has an output of size N + d
    # with d < 0): points with some negative values, used by the Coq side only where every port size is >= 0
    for _ in range(n):
        pts.append({nm: [rng.randint(-3, -1) if rng.random() < 0.3 else rng.randint(2, 9), 1] for nm in sorted(names)})
    for _ in range(n):     # the allocation / release parameters dq small of either sign, everything else at least 2
        pts.append({nm: [rng.choice([-2, -1, 1, 2]) if nm.split(".")[-1] == "dq" else rng.randint(2, 9), 1] for nm in sorted(names)})
    return pts


def nonconstant_repetition_cases():
    """A repetition that is NOT constant over a child with ancillae of its own: the hierarchy is refused (a qubits resource
    cannot be carried through such a repetition), it is not compiled with the child's ancillae counted a second time."""
    def node(name, params=(), ports=(), conns=(), kids=(), links=(), res=(), rep=None):
        return {"name": name, "type": None, "input_params": list(params), "local_variables": [], "linked_params": [list(l) for l in links],
                "ports": list(ports), "resources": list(res), "connections": [list(c) for c in conns], "repetition": rep, "children": list(kids)}

    def port(n, d, size):
        return {"name": n, "direction": d, "size": size}
    out = []
    seqs = [{"kind": "arithmetic", "initial_term": E.num(1), "difference": E.num(2)}, {"kind": "geometric", "ratio": E.num(2)},
            {"kind": "custom", "term_expression": E.op("add", E.sym("i"), E.num(1)), "iterator_symbol": "i"}, {"kind": "constant", "multiplier": E.num(2)}]
    for seq in seqs:
        step = node("step", params=["N"], ports=[port("in_0", "input", E.sym("N")), port("out_0", "output", E.sym("N"))],
                    res=[{"name": "local_ancillae", "type": "qubits", "value": E.num(2)}, {"name": "T", "type": "additive", "value": E.num(4)}])
        loop = node("loop", params=["N", "K"], links=[["N", [["step", "N"]]]], ports=[port("in_0", "input", E.sym("N")), port("out_0", "output", None)],
                    conns=[["in_0", "step.in_0"], ["step.out_0", "out_0"]], kids=[step], rep={"count": E.sym("K"), "sequence": seq})
        root = node("root", params=["N", "K"], links=[["N", [["loop", "N"]]], ["K", [["loop", "K"]]]],
                    ports=[port("in_0", "input", E.sym("N")), port("out_0", "output", None)],
                    conns=[["in_0", "loop.in_0"], ["loop.out_0", "out_0"]], kids=[loop], res=[{"name": "local_ancillae", "type": "qubits", "value": E.num(1)}])
        out.append({"routine": root, "n_eval": 2, "eval_seed": 3, "native": False, "expect_refusal": seq["kind"] != "constant"})
    return out


def crossed_register_names():
    """A child that calls its first register's size M and its second N, fed N into the first and M into the second by its parent,
    with an output size and ancillae written over both: the same letter means different things at the two levels, and the cut
    sizes are what they are under the child's reading."""
    def node(name, params=(), ports=(), conns=(), kids=(), links=(), res=()):
        return {"name": name, "type": None, "input_params": list(params), "local_variables": [], "linked_params": [list(l) for l in links],
                "ports": list(ports), "resources": list(res), "connections": [list(c) for c in conns], "repetition": None, "children": list(kids)}

    def port(n, d, size):
        return {"name": n, "direction": d, "size": size}
    out = []
    for a, b in (("M", "N"), ("N", "M"), ("M", "K")):
        for outsize, anc in ((E.op("add", E.op("mul", E.num(2), E.sym(a)), E.sym(b)), E.sym(a)),
                             (E.op("add", E.sym(a), E.sym(b)), E.op("mul", E.num(2), E.sym(b))),
                             (E.op("mul", E.sym(a), E.sym(b)), E.op("add", E.sym(a), E.num(1)))):
            merge = node("merge", ports=[port("in_0", "input", E.sym(a)), port("in_1", "input", E.sym(b)), port("out_0", "output", outsize)],
                         res=[{"name": "local_ancillae", "type": "qubits", "value": anc}])
            tail = node("tail", ports=[port("in_0", "input", E.sym("W")), port("out_0", "output", E.sym("W"))],
                        res=[{"name": "local_ancillae", "type": "qubits", "value": E.num(3)}])
            root = node("root", params=["N", "M"], ports=[port("in_0", "input", E.sym("N")), port("in_1", "input", E.sym("M")), port("out_0", "output", None)],
                        conns=[["in_0", "merge.in_0"], ["in_1", "merge.in_1"], ["merge.out_0", "tail.in_0"], ["tail.out_0", "out_0"]], kids=[merge, tail])
            out.append({"routine": root, "n_eval": 3, "eval_seed": 5, "native": False})
    return out


def emit(pairs):
    lines = [lib.CASE_HEADER.format(imports="RepModel Routine Compile CompileTop Highwater Checks", gen_imports="")]
    items = []
    for k, (case, imp) in enumerate(pairs):
        if case.get("expect_refusal"):
            refused = (not imp.get("ok")) and imp.get("exc") == "BartiqCompilationError"
            items.append("([], [0%nat])" if refused else "([], [1%nat])")
            continue
        lines.append(f"Definition i{k} : impl_result := {H.impl_to_coq(imp)}.")
        names = H.tree_input_params(imp["tree"]) if imp.get("ok") else set()
        pts = H.points_to_coq(make_points(lib.Rng(f"pts-{lib.case_hash(case)}"), names))
        lines.append(f"Definition r{k} : routine := {H.routine_to_coq(case['routine'])}.")
        parts = [f"check_highwater_src r{k} i{k} {pts}"]
        if imp.get("ok"):
            # the compiled hierarchy the highwater is taken on is the one handed over: every port size against the compile model
            tp = H.points_to_coq(H.make_points(lib.Rng(f"tp-{lib.case_hash(case)}"), names, 3))
            parts.append(f"tie_ports r{k} i{k} {'true' if imp.get('inexact') else 'false'} {tp}")
        # ... and the numbers the real evaluate() reports at natural-number points (one all-numeric tree per point)
        for j, ev in enumerate(imp.get("evals", []) if imp.get("ok") else []):
            if ev.get("ok"):
                lines.append(f"Definition e{k}_{j} : impl_result := {H.impl_to_coq({'ok': True, 'tree': ev['tree']})}.")
                parts.append(f"check_highwater_src r{k} e{k}_{j} [[]]")
                # every input was given a number (zeros included): nothing symbolic is left in the evaluated hierarchy
                if H.tree_input_params(ev["tree"]) or '"s"' in __import__("json").dumps(ev["tree"]["resources"]):
                    parts.append("([], [1%nat])")
            elif ev.get("exc") != "BartiqCompilationError":
                parts.append("([1%nat], [1%nat])")
        items.append("(let rs := " + E.coq_list(parts) + " in (flat_map fst rs, flat_map snd rs))")
    lines.append("Definition results : list (list nat * list nat) :=\n " + E.coq_list(items) + ".\n")
    lines.append("Eval vm_compute in results.\n")
    return "\n".join(lines)


def max_fanout(r):
    return max([len(r["children"])] + [max_fanout(c) for c in r["children"]])


def nontrivial(case):
    return max_fanout(case["routine"]) >= 2


def distribution(cases):
    d = {"max_fanout": {}, "with_ancillae": 0, "with_through": 0}
    for c in cases:
        k = str(max_fanout(c["routine"]))
        d["max_fanout"][k] = d["max_fanout"].get(k, 0) + 1
        s = str(c["routine"])
        d["with_ancillae"] += "local_ancillae" in s
        d["with_through"] += "'through'" in s
    return d


def mk_stream(cases):
    return {"name": "hier-highwater", "impl_stream": "highwater", "cases": cases, "emit": emit, "shard_size": 12,
            "nontrivial": nontrivial, "distribution": distribution, "timeout": 90}


def streams(tier, seed):
    rng = lib.Rng(f"C16-{seed}")
    n = 150 if tier == "quick" else 2500
    return [mk_stream(lib.load_corpus(PROP, "hier-highwater") + nonconstant_repetition_cases() + crossed_register_names() + gen_cases(rng, n, 3 if tier == "quick" else 4))]


def replay_streams(payload):
    return [mk_stream([payload["case"]])]
