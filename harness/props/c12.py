"""C12 — expressions survive being written out and read back."""
from fractions import Fraction

import exprs as E
import hier as H
import lib

PROP = "C12"
LEVEL = "translation_validation"
THEOREM_FILE = "properties/C12.v"
CASE_DEPS = ["theories/Parser.v"]
RULE = ("stream expr-trees: seeded random expressions over plain, namespaced, port and reserved-word symbols, integers, rationals, "
        "floats, negative / fractional / nested powers, built-in and uninterpreted functions, Sum and Product objects, the "
        "constants PI and e; each is built as a sympy object by the real parser (optionally after a partial substitution of "
        "rationals and floats, as evaluation produces them), written out with the real serializer and read back with the real "
        "parser; inside Coq, at rational points (perfect squares, so that half-integer powers are exact): value of the read-back "
        "expression = value of the original, same free symbols, same uninterpreted calls (spec); the standard reading of the "
        "written TEXT by the model parser has the same value (tie); non-trivial = at least 4 nodes; distinct by canonical JSON hash")
TRUSTED_BASE = ["sympy's StrPrinter for Add/Mul/Rational/Float (the base class of bartiq's printer)"]
ASSUMPTIONS = ["numeric literals are compared to 15 significant digits (relative 1e-14) when a float is involved"]

SYMS = ["x", "y", "a.b", "#p", "a.#q", "lambda", "in", "N_1", "#in", "b.c.#lambda", "lambda_max", "prep.lambda_DF"]     # (ports NAMED like reserved words too)


def gen(rng, depth):
    if depth <= 0 or rng.random() < 0.2:
        r = rng.random()
        if r < 0.55:
            return E.sym(rng.choice(SYMS))
        if r < 0.75:
            return E.num(rng.randint(1, 9))
        if r < 0.9:
            return E.num(Fraction(rng.randint(1, 9), rng.choice([2, 3, 4, 7])))
        return E.num(Fraction(rng.choice(["0.5", "2.25", "0.125", "1.75"])))
    k = rng.choice(["add", "add", "mul", "mul", "sub", "div", "pow-int", "pow-neg", "pow-half", "pow-nested", "pow-nested", "pow-numbase", "neg",
                    "f", "g", "builtin", "builtin", "max", "sum", "mod"])
    a, b = gen(rng, depth - 1), gen(rng, depth - 1)
    if k in ("add", "mul", "sub"):
        return E.op(k, a, b)
    if k == "div":
        return E.op("div", a, b)
    if k == "pow-int":
        return E.op("pow", a, E.num(rng.choice([2, 3])))
    if k == "pow-neg":
        return E.op("pow", a, E.num(rng.choice([-1, -2])))
    if k == "pow-half":
        return E.op("pow", E.sym(rng.choice(SYMS)), E.num(Fraction(rng.choice([1, 3, -1]), 2)))
    if k == "pow-nested" and rng.random() < 0.5:
        # an even power of a DIFFERENCE under a fractional or symbolic outer exponent: flattening it is wrong wherever
        # the difference is negative ( ((x - y)^2)^(1/2) is |x - y|, not x - y )
        x, y = rng.sample(SYMS, 2)
        return E.op("pow", E.op("pow", E.op("sub", E.sym(x), E.sym(y)), E.num(2)), rng.choice([E.num(Fraction(1, 2)), E.num(Fraction(1, 2)), E.sym("K")]))
    if k == "pow-nested":
        return E.op("pow", E.op("pow", E.sym(rng.choice(SYMS)), E.num(2)), E.sym(rng.choice(["y", "x"])))
    if k == "pow-numbase":
        # a bare negative number or fraction under a symbolic exponent (needs parentheses in front of the caret)
        base = rng.choice([E.num(-1), E.num(-2), E.num(Fraction(2, 3)), E.num(Fraction(-1, 2)), E.num(Fraction(-3, 2)), E.num(10)])
        return E.op("pow", base, E.sym("K"))     # K is never substituted, so the power stays real-valued (K integer)
    if k == "neg":
        return E.op("neg", a)
    if k == "f":
        # (now and then an uninterpreted function whose name ENDS like the parser's internal port marker)
        return E.fun(rng.choice(["f", "f", "f", "NumPort", "ctrl.OutPort", "lambda_of"]), a)
    if k == "g":
        return E.fun("g", a, b)
    if k == "builtin" and rng.random() < 0.5:
        # the whole table of built-in functions, with every arity the interpreter accepts
        one = ["sqrt", "cbrt", "abs", "sin", "cos", "tan", "cot", "sec", "csc", "asin", "atan", "sinh", "cosh", "tanh", "exp", "log",
               "log2", "log10", "exp2", "gamma", "heaviside", "frac", "re", "im", "floor", "ceiling", "round", "nlz", "lambertw", "sgn"]
        r = rng.random()
        if r < 0.6:
            return E.fun(rng.choice(one), E.sym(rng.choice(SYMS)) if rng.random() < 0.6 else a)
        if r < 0.8:
            return E.fun("round", a, rng.choice([E.num(2), E.num(1), E.num(-1), E.sym("K")]))
        return E.fun(rng.choice(["multiplicity", "log", "mod", "atan2", "atan2"]), a, b)
    if k == "builtin":
        return rng.choice([E.op("ceil", E.op("div", a, E.num(2))), E.op("floor", E.op("div", a, E.num(3))), E.fun("log2", E.sym(rng.choice(SYMS))),
                           E.fun("sin", E.sym("x")), E.fun("gamma", E.sym("y")), E.fun("exp", E.sym("x"))])
    if k == "max":
        return E.op(rng.choice(["max", "min"]), a, b)
    if k == "mod":
        return E.op("mod", a, E.num(rng.choice([3, 5])))
    it = "i"
    body = E.op("add", E.op("mul", E.sym(it), E.sym(rng.choice(["x", "y"]))), E.num(1))
    return ["b", rng.choice(["sum", "prod"]), it, body, E.num(0), E.op("sub", E.sym("K"), E.num(1))]


def gen_cases(rng, n):
    out = []
    while len(out) < n:
        e = gen(rng, rng.randint(1, 4))
        c = {"expr": e}
        if rng.random() < 0.35:
            c["direct"] = True      # the object is assembled with sympy directly, not by reading text (see impl_roundtrip)
        if rng.random() < 0.3:
            syms = sorted(E.fv(e) - {"K"})
            if syms:
                c["assign"] = {s: rng.choice(["3", "7/2", "0.5", "1/3", "2.25"]) for s in rng.sample(syms, rng.randint(1, min(2, len(syms))))}
        out.append(c)
    # sums and products as the backend builds them for repetitions (sequence_sum / sequence_prod), including terms that do
    # not mention the iterator, non-zero lower limits, and a sum whose term binds the same iterator again
    terms = [E.num(3), E.sym("x"), E.op("mul", E.num(2), E.sym("x")), E.op("add", E.sym("y"), E.num(1)),
             E.op("mul", E.sym("i"), E.sym("x")), E.op("add", E.op("pow", E.sym("i"), E.num(2)), E.sym("y")),
             ["b", "sum", "i", E.op("mul", E.sym("i"), E.num(2)), E.num(0), E.num(2)]]
    lows = [E.num(0), E.num(1), E.sym("y")]
    for kind in ("sum", "prod"):
        for term in terms:
            for lo in lows:
                hi = rng.choice([E.op("sub", E.sym("K"), E.num(1)), E.sym("K"), E.num(4)])
                out.append({"seq": {"kind": kind, "term": term, "it": "i", "lo": lo, "hi": hi}, "plus": rng.choice([None, "x", "2"])})
    # symbols spelled like mathematical constants in a case the parser does not treat as one (E, e, pi, OO, infinity), in
    # expressions built by the parser itself: what the backend reads back from the printed text must still be those symbols
    for w in ("E", "e", "pi", "Pi", "OO", "infinity"):
        for body in (E.sym(w), E.op("add", E.sym(w), E.num(1)), E.op("mul", E.sym("N_1"), E.op("ceil", E.fun("log2", E.op("div", E.sym(w), E.sym("x"))))),
                     E.op("pow", E.sym(w), E.sym("x"))):
            out.append({"expr": body, "via_parser": True})
    for t in ["PI * x", "exp(1) * y", "2 * PI + x", "x ^ -1", "x ^ (1/2) * y ^ (3/2)", "-x", "-(x + y)", "x - y", "1/(x + y)", "x/y/2",
              "(x ^ 2) ^ y", "x ^ y ^ 2", "f(x) ^ -2", "lambda ^ in", "2 ^ -x", "-2 ^ x", "(-2) ^ x", "x // y", "x % y", "0.001 * x", "x * 1.5e-07",
              # floats that sympy writes in EXPONENT notation (below 1e-5, from 1e16 on), the exponent ending in a zero or not,
              # alone, as a coefficient, as an argument, as an exponent
              "1e-10 * x", "2.5e+20 * N", "f(1.0e+30, y)", "1e100", "x + 1e16", "3e-7 * x + 1e-20", "g(x, 1.25e-10)", "x ^ 1e-10",
              "1.5e-300 * y", "6.02e23 * x", "max(x, 1e20)", "1e-6 + 1e-5 * x", "123456789.0 * x", "1e15 * x", "x / 4e-30",
              # built-ins applied to a PRODUCT with a numeric coefficient, still symbolic (the call stays the call it is)
              "sgn(-3 * x)", "sgn(x / 2)", "N * sgn(y / 2) + 1", "sgn(2 * (x - y) * N)", "heaviside(-2 * x)", "abs(-3 * x * y)", "nlz(2 * x)",
              "floor(-x / 2)", "frac(3 * x)", "re(2 * x) + im(-y / 3)", "round(-5 * x / 2)",
              # expressions that ARE one lone constant (or collapse to one on construction)
              "PI", "exp(1)", "x * PI / x", "2 * PI / 2", "log(exp(1)) * exp(1)", "oo", "-oo"]:
        out.append({"text": t})
    return out


def emit(pairs):
    lines = [lib.CASE_HEADER.format(imports="Parser", gen_imports="From BqGen Require Import GenParser.")]
    sq = [4, 9, 16, 25, 36, 49, 64, 81]
    pts = [{n: [sq[(i + s) % len(sq)], 1] for i, n in enumerate(SYMS)} | {"K": [3 + s, 1]} for s in (0, 3)]
    lines.append(f"Definition pts := {H.points_to_coq(pts)}.")
    items = []
    for case, imp in pairs:
        if not imp.get("ok"):
            # sympy could not even build the object (e.g. division by a literal zero): not a serialisation matter
            items.append("([], [])" if imp.get("exc") in ("ZeroDivisionError",) else "([], [1%nat])")
            continue
        if "skip" in imp:
            items.append("([], [])")
            continue
        if any(k in str(imp["a"]) for k in ("<const>zoo", "<const>nan", "<const>oo", "<const>-oo", "<const>I")):
            items.append("([], [])")      # not a real-valued expression (e.g. a literal division by zero): outside the property
            continue
        inex = "true" if imp.get("inexact") else "false"
        floats = E.coq_list([E.coq_q(n, d) for n, d in E.float_leaves(imp["a"])])
        items.append(f"(check_roundtrip gen_special_funcs {E.to_coq(imp['a'])} {floats} {E.coq_string(imp['text'])} {E.to_coq(imp['b'])} {inex} "
                     f"{'true' if imp['fs_equal'] and imp.get('undef_equal', True) else 'false'} pts)")
    lines.append("Definition results : list (list nat * list nat) :=\n " + E.coq_list(items) + ".\n")
    lines.append("Eval vm_compute in results.\n")
    return "\n".join(lines)


def nontrivial(case):
    return "text" in case or "seq" in case or E.size(case["expr"]) >= 4


def distribution(cases):
    d = {"with_substitution": sum(1 for c in cases if c.get("assign")), "from_text": sum(1 for c in cases if "text" in c)}
    return d


def mk_stream(cases):
    return {"name": "expr-trees", "impl_stream": "roundtrip", "cases": cases, "emit": emit, "shard_size": 100,
            "nontrivial": nontrivial, "distribution": distribution, "timeout": 30}


def streams(tier, seed):
    rng = lib.Rng(f"C12-{seed}")
    n = 500 if tier == "quick" else 10000
    return [mk_stream(lib.load_corpus(PROP, "expr-trees") + gen_cases(rng, n))]


def replay_streams(payload):
    return [mk_stream([payload["case"]])]
