"""C20 — minimisation respects its bounds and reports a consistent optimum."""
import exprs as E
import lib

PROP = "C20"
LEVEL = "proof"
THEOREM_FILE = "properties/C20.v"
CASE_DEPS = ["theories/GradDescentFloat.v"]
RULE = ("stream graddesc: seeded cost functions from four smooth families (quadratic, quartic + linear, cubic, linear) with float "
        "coefficients x bounds (none / containing the minimum / excluding it / excluding the start) x starting points x step "
        "sizes x iteration budgets; the real Optimizer.gradient_descent is run on the Python callable and compared BIT-EXACTLY "
        "(float.hex) inside Coq with the model at binary64 primitive floats (tie: optimum, cost, whole history, error class), "
        "and C20 itself is checked on the real result (spec: history and optimum within bounds, history starts at x0 and ends "
        "at the optimum, cost = f(optimum), ValueError only for an out-of-bounds start); stream minimize: the expression-level "
        "wrapper on the same families; non-trivial = the history has at least 3 points; distinct by canonical JSON hash")
TRUSTED_BASE = ["Coq primitive floats (PrimFloat: IEEE 754 binary64 operations of the host, used through vm_compute)"]
ASSUMPTIONS = ["theorems assume a total order on the carrier (no NaN); with NaN produced by the cost function max(min(nan, hi), lo) stays NaN in the history"]


def fhex(x):
    return float(x).hex()


def gen_cases(rng, n):
    cases = []
    for _ in range(n):
        kind = rng.choice([0, 0, 0, 1, 2, 3])
        a = rng.choice([0.5, 1.0, 2.0, 3.25, 0.1])
        b = rng.choice([-2.0, 0.0, 1.5, 3.0, 0.3])
        c = rng.choice([-1.0, 0.0, 2.0, 0.7])
        x0 = rng.choice([-3.0, -1.0, 0.0, 0.25, 2.0, 4.0, 1.5])
        bk = rng.choice(["none", "wide", "tight", "exclude-start", "exclude-min", "min-near-bound", "start-at-edge"])
        lr = rng.choice([0.1, 0.01, 0.05, 0.3])
        max_iter = rng.choice([5, 40, 200, 1000])
        mom = rng.choice([0.9, 0.5, 0.0])
        if bk == "min-near-bound":
            # an interior minimum close to one bound, the start far on the other side, a small step with momentum:
            # the iterate overshoots the minimum and momentum carries it on towards (and past) the near bound
            kind = 0
            delta = rng.choice([0.25, 0.5, 1.0])
            x0 = b + rng.choice([6.0, 7.5, -6.0, -7.5])
            bounds = [b - delta, x0 + 1.0] if x0 > b else [x0 - 1.0, b + delta]
            lr, mom, max_iter = rng.choice([0.01, 0.02]), 0.9, rng.choice([200, 1000])
        elif bk == "none":
            bounds = None
        elif bk == "wide":
            bounds = [min(x0, b) - 5.0, max(x0, b) + 5.0]
        elif bk == "tight":
            bounds = [x0 - 0.125, x0 + 0.125]
        elif bk == "exclude-start":
            bounds = [x0 + 0.5, x0 + 4.0] if rng.random() < 0.5 else [x0 - 4.0, x0 - 0.5]
        else:
            bounds = [b + 0.5, max(x0, b + 0.5) + 3.0] if x0 >= b + 0.5 else [min(x0, b - 3.0), b - 0.5]
        tol = rng.choice([1e-4, 1e-6, 1e-2])
        if bk == "start-at-edge":
            # the start sits exactly on a bound, one unit in the last place inside or outside it, or outside by a
            # fraction of the convergence tolerance: on or inside is a start, outside (by however little) is an error
            import math
            lo, hi = x0 - rng.choice([0.5, 3.0]), x0 + rng.choice([0.5, 3.0])
            if rng.random() < 0.5:
                x0 = rng.choice([hi, math.nextafter(hi, math.inf), math.nextafter(hi, -math.inf), hi + tol / 2, hi + tol / 16])
            else:
                x0 = rng.choice([lo, math.nextafter(lo, -math.inf), math.nextafter(lo, math.inf), lo - tol / 2, lo - tol / 16])
            bounds = [lo, hi]
        cases.append({"kind": kind, "abc": [fhex(a), fhex(b), fhex(c)], "x0": fhex(x0),
                      "bounds": [fhex(v) for v in bounds] if bounds else None, "lr": fhex(lr), "max_iter": max_iter,
                      "tol": fhex(tol), "mom": fhex(mom), "bounds_kind": bk})
        if bounds and rng.random() < 0.25:
            cases[-1]["bounds_list"] = True      # the interval handed over as a two-element list, not a tuple
    return cases


def fl(h):
    return f"({h})%float" if not h.startswith("-") else f"(-{h[1:]})%float"


def emit(pairs):
    lines = ["From Coq Require Import List Bool PrimFloat.\nFrom Bq Require Import GradDescent GradDescentFloat.\nImport ListNotations.\n"]
    items = []
    for case, imp in pairs:
        if not imp.get("ok"):
            items.append("([1%nat], [1%nat])")
            continue
        a, b, c = [fl(h) for h in case["abc"]]
        bounds = f"(Some ({fl(case['bounds'][0])}, {fl(case['bounds'][1])}))" if case["bounds"] else "None"
        cls = imp["cls"]
        opt = fl(imp["opt"]) if cls == 0 else "0%float"
        cost = fl(imp["cost"]) if cls == 0 else "0%float"
        hist = E.coq_list([fl(h) for h in imp["hist"]]) if cls == 0 else "[]"
        items.append(f"(check_gd {case['kind']}%nat {a} {b} {c} {fl(case['x0'])} {bounds} {fl(case['lr'])} {case['max_iter']}%nat "
                     f"{fl(case['tol'])} {fl(case['mom'])} {cls}%nat {opt} {cost} {hist})")
    lines.append("Definition results : list (list nat * list nat) :=\n " + E.coq_list(items) + ".\n")
    lines.append("Eval vm_compute in results.\n")
    return "\n".join(lines)


def nontrivial(case):
    return case["max_iter"] >= 40 and case["bounds_kind"] != "exclude-start"


def distribution(cases):
    d = {"bounds": {}, "family": {}}
    for c in cases:
        d["bounds"][c["bounds_kind"]] = d["bounds"].get(c["bounds_kind"], 0) + 1
        d["family"][str(c["kind"])] = d["family"].get(str(c["kind"]), 0) + 1
    return d


def mk_stream(cases):
    return {"name": "graddesc", "impl_stream": "graddesc", "cases": cases, "emit": emit, "shard_size": 40,
            "nontrivial": nontrivial, "distribution": distribution, "timeout": 60}


# ---- the expression-level wrapper
FAMILIES = ["{a}*(x - {b})**2 + {c}", "{a}*(x - {b})**4 + {c}*x", "{a}*x**3 + {b}*x**2 + {c}*x", "{a}*x + {b}", "{c} + x - x"]   # (the last: a cost that does not depend on x)


def gen_min_cases(rng, n):
    """the wrapper: bounds with an end exactly 0, one-sided (None) bounds, minima on either side of a bound"""
    out = []
    bound_pool = [[0, 5], [-5, 0], [None, 2], [-1, None], [0, None], [None, 0], [-3, 3], [0.0, 4.0], None]
    for _ in range(n):
        kind = rng.choice([0, 0, 0, 1, 2, 4])
        a = rng.choice([0.5, 1.0, 2.0])
        b = rng.choice([-2.0, -1.0, 1.0, 3.0, 0.5])
        c = rng.choice([-1.0, 0.0, 2.0])
        bounds = rng.choice(bound_pool)
        x0 = rng.choice([-4.0, -0.5, 0.0, 0.5, 1.0, 2.0, 4.5])
        out.append({"expr": FAMILIES[kind].format(a=a, b=b, c=c), "kind": kind, "abc": [fhex(a), fhex(b), fhex(c)], "x0": x0,
                    "bounds": bounds, "lr": rng.choice([0.05, 0.1]), "max_iter": rng.choice([60, 400]), "tol": rng.choice([1e-4, 1e-3]),
                    "bounds_kind": "none" if bounds is None else "zero-end" if 0 in [v for v in bounds if v is not None] else "one-sided" if None in bounds else "two-sided",
                    "reuse": rng.random() < 0.4})
        if bounds is not None and rng.random() < 0.3:
            out[-1]["bounds_list"] = True      # the interval handed over as a list, not a tuple
        if rng.random() < 0.2:
            out[-1]["x0_array"] = True         # the start handed over as a one-element numpy array (scipy style)
        elif kind == 0 and float(b).is_integer() and rng.random() < 0.5:
            # the start is the minimum itself, handed over as a Python INT: nothing to iterate, the cost is asked at the int
            out[-1]["x0"] = float(b)
            out[-1]["x0_int"] = True
            if bounds is not None:
                lo_, hi_ = bounds
                if (lo_ is not None and b < lo_) or (hi_ is not None and b > hi_):
                    out[-1].pop("x0_int")
        if rng.random() < 0.3:
            # the parameter being minimised over need not be called x: a name spelled like a mathematical constant in a case the
            # expression language does NOT treat as one (e, E, pi, Pi, infinity) is an ordinary name, like lamda or N_1
            out[-1]["param"] = rng.choice(["e", "E", "pi", "Pi", "infinity", "lamda", "N_1", "t"])
    return out


def emit_min(pairs):
    """the wrapper goes through sympy for the cost, so only C20's conclusions are checked (cost with a relative tolerance)"""
    lines = ["From Coq Require Import List Bool PrimFloat.\nFrom Bq Require Import GradDescent GradDescentFloat.\nImport ListNotations.\nOpen Scope float_scope.\n"]
    items = []
    for case, imp in pairs:
        if not imp.get("ok"):
            items.append("([1%nat], [1%nat])")
            continue
        cls = imp["cls"]
        x0 = fl(float(case["x0"]).hex())
        if case["bounds"]:
            lo = fl(float(case["bounds"][0]).hex()) if case["bounds"][0] is not None else "neg_infinity"
            hi = fl(float(case["bounds"][1]).hex()) if case["bounds"][1] is not None else "infinity"
            within = f"(fun x => PrimFloat.leb {lo} x && PrimFloat.leb x {hi})"
        else:
            within = "(fun _ : float => true)"
        if cls == 0:
            a, b, c = [fl(h) for h in case["abc"]]
            hist = E.coq_list([fl(h) for h in imp["hist"]])
            opt, cost = fl(imp["opt"]), fl(imp["cost"])
            spec = (f"[if forallb {within} {hist} then 0%nat else 1%nat; if {within} {opt} then 0%nat else 1%nat; "
                    f"if feq (hd 0 {hist}) {x0} then 0%nat else 1%nat; if feq (last {hist} 0) {opt} then 0%nat else 1%nat; "
                    f"if PrimFloat.leb (PrimFloat.abs ({cost} - cost {case['kind']}%nat {a} {b} {c} {opt})) "
                    f"(0x1p-30 * (1 + PrimFloat.abs {cost})) then 0%nat else 1%nat]")
        elif cls == 1:
            spec = f"[if {within} {x0} then 1%nat else 0%nat]"
        else:
            spec = "[]"
        items.append(f"([], {spec})")
    lines.append("Definition results : list (list nat * list nat) :=\n " + E.coq_list(items) + ".\n")
    lines.append("Eval vm_compute in results.\n")
    return "\n".join(lines)


def mk_min_stream(cases):
    return {"name": "minimize", "impl_stream": "minimize", "cases": cases, "emit": emit_min, "shard_size": 40,
            "nontrivial": nontrivial, "distribution": distribution, "timeout": 120}


def streams(tier, seed):
    rng = lib.Rng(f"C20-{seed}")
    n = 300 if tier == "quick" else 6000
    m = 120 if tier == "quick" else 1500
    return [mk_stream(lib.load_corpus(PROP, "graddesc") + gen_cases(rng, n)), mk_min_stream(gen_min_cases(rng, m))]


def replay_streams(payload):
    if payload.get("stream") == "minimize":
        return [mk_min_stream([payload["case"]])]
    return [mk_stream([payload["case"]])]
