#!/bin/sh
# Runs every claimed check (quick tier) on the current tree; prints one line per check; exit 1 if any raised an alarm.
cd "$(dirname "$0")/.." || exit 2
rc=0
for p in $(python3 -c "import json; print(' '.join(c['property_id'] for c in json.load(open('MANIFEST.json'))['checks']))"); do
  out=$(./check "$p" --tier "${VERIF_TIER:-quick}" 2>&1); code=$?
  echo "$out" | grep -E "^VIOLATION|^KNOWN-FINDING|^C[0-9]+ tier" | cut -c1-200
  [ $code -ne 0 ] && rc=1
done
exit $rc
