"""Shared machinery of every check: translate -> build -> audit -> streams -> verdict -> evidence."""
import concurrent.futures as cf
import fcntl
import hashlib
import json
import os
import random
import re
import shutil
import subprocess
import sys
import time

if hasattr(sys, "set_int_max_str_digits"):
    sys.set_int_max_str_digits(0)      # integers are exchanged exactly, however long

VERIF = os.path.dirname(os.path.dirname(os.path.abspath(__file__)))
REPO = os.environ.get("BARTIQ_REPO", "/repo")
COQ = os.path.join(VERIF, "coq")
PY = "/venv/bin/python"
COQ_FLAGS = ["-Q", "theories", "Bq", "-Q", "generated", "BqGen", "-Q", "properties", "BqProp"]
NPROC = min(16, os.cpu_count() or 4)

FORBIDDEN = re.compile(
    r"\b(Admitted|admit|Axiom|Axioms|Parameter|Parameters|Conjecture|Conjectures|Hypothesis|Variable|Variables|Hypotheses)\b"
    r"|Unset\s+Guard|bypass_check|type-in-type|impredicative-set|Admit\s+Obligations|native_compute"
)
# stdlib axioms a property theorem may depend on (each is named in DESIGN.md section 7)
ALLOWED_AXIOMS = {
    "PrimFloat", "Uint63", "FloatAxioms", "PrimInt63",
}


def sh(cmd, timeout, cwd=None, env=None):
    try:
        p = subprocess.run(cmd, cwd=cwd, env=env, capture_output=True, text=True, timeout=timeout)
        return p.returncode, p.stdout, p.stderr
    except subprocess.TimeoutExpired as e:
        return 124, (e.stdout or b"").decode() if isinstance(e.stdout, bytes) else (e.stdout or ""), "TIMEOUT"


class Lock:
    def __init__(self, name):
        os.makedirs(os.path.join(VERIF, "build"), exist_ok=True)
        self.path = os.path.join(VERIF, "build", name + ".lock")

    def __enter__(self):
        self.f = open(self.path, "w")
        fcntl.flock(self.f, fcntl.LOCK_EX)
        return self

    def __exit__(self, *a):
        fcntl.flock(self.f, fcntl.LOCK_UN)
        self.f.close()


# ------------------------------------------------------------------ translate + build


def translate():
    """Regenerate coq/generated from /repo. Returns (ok, log, failures)."""
    rc, out, err = sh([sys.executable, os.path.join(VERIF, "translator", "run.py")], 120, env={**os.environ, "BARTIQ_REPO": REPO})
    fails = [l for l in out.splitlines() if l.startswith("TRANSLATION-FAILED")]
    global LAST_FALLBACKS
    LAST_FALLBACKS = [l for l in out.splitlines() if l.startswith("TRANSLATION-FALLBACK")]
    return rc == 0, out + err, fails


LAST_FALLBACKS = []


def snapshot_diff():
    """Names of generated files that differ from their committed snapshot."""
    snap = os.path.join(COQ, "snapshots")
    out = []
    for f in sorted(os.listdir(snap)):
        b = os.path.join(COQ, "generated", f)
        if f.endswith(".v") and (not os.path.exists(b) or open(os.path.join(snap, f)).read() != open(b).read()):
            out.append(f)
    return out


def use_snapshots():
    """Replace every generated file that differs from its committed snapshot by the snapshot. Returns the names replaced."""
    snap = os.path.join(COQ, "snapshots")
    replaced = []
    for f in sorted(os.listdir(snap)):
        if not f.endswith(".v"):
            continue
        a, b = os.path.join(snap, f), os.path.join(COQ, "generated", f)
        if not os.path.exists(b) or open(a).read() != open(b).read():
            with open(b, "w") as out:
                out.write(open(a).read())
            replaced.append(f)
    return replaced


def coq_project_files():
    files = []
    for line in open(os.path.join(COQ, "_CoqProject")):
        line = line.strip()
        if line.endswith(".v"):
            files.append(line)
    return files


def build(targets=None, timeout=1500):
    """Full .vo build (make) of the development or of the given targets. Returns (ok, log, first_failing_file)."""
    if not os.path.exists(os.path.join(COQ, "Makefile")) or os.path.getmtime(os.path.join(COQ, "Makefile")) < os.path.getmtime(
        os.path.join(COQ, "_CoqProject")
    ):
        rc, out, err = sh(["coq_makefile", "-f", "_CoqProject", "-o", "Makefile"], 60, cwd=COQ)
        if rc != 0:
            return False, out + err, "_CoqProject"
    cmd = ["make", f"-j{NPROC}", "-k"] + (targets or [])
    rc, out, err = sh(cmd, timeout, cwd=COQ)
    log = out + err
    if rc == 0:
        return True, log, None
    m = re.search(r'File "\./([^"]+)", line (\d+)', log)
    return False, log, (m.group(1) if m else "?")


def deps_of(vfile):
    """Transitive .v dependencies (within the project) of a file, via coqdep."""
    rc, out, err = sh(["coqdep"] + COQ_FLAGS + coq_project_files(), 60, cwd=COQ)
    dep = {}
    for line in out.splitlines():
        if ":" not in line:
            continue
        lhs, rhs = line.split(":", 1)
        tgt = [t for t in lhs.split() if t.endswith(".vo")]
        if not tgt:
            continue
        dep[tgt[0][:-1]] = [d[:-1] for d in rhs.split() if d.endswith(".vo")]
    seen, stack = set(), [vfile]
    while stack:
        f = stack.pop()
        if f in seen:
            continue
        seen.add(f)
        stack.extend(dep.get(f, []))
    return sorted(seen)


def audit_sources(files):
    """No Admitted/Axiom/... anywhere in the given .v files. Returns list of offending lines."""
    bad = []
    for f in files:
        p = os.path.join(COQ, f)
        if not os.path.exists(p):
            continue
        in_section = 0
        text = open(p).read()
        text_nc = re.sub(r"\(\*.*?\*\)", lambda m: " " * len(m.group(0)), text, flags=re.S)  # strip comments
        for i, line in enumerate(text_nc.splitlines(), 1):
            if re.match(r"\s*Section\b", line):
                in_section += 1
            if re.match(r"\s*End\b", line) and in_section:
                in_section -= 1
            for m in FORBIDDEN.finditer(line):
                w = m.group(0)
                if w in ("Hypothesis", "Variable", "Variables", "Hypotheses") and in_section:
                    continue  # Section variables become explicit premises when the section closes
                bad.append(f"{f}:{i}: {w}")
    return bad


def check_property_file(vfile, timeout=600):
    """Compile properties/Cnn.v on its own and read every Print Assumptions verdict.
    Returns (ok, log, assumptions: list[(theorem, 'closed' | [axioms])])."""
    rc, out, err = sh(["coqc"] + COQ_FLAGS + [vfile], timeout, cwd=COQ)
    log = out + err
    names = re.findall(r"^\s*Print Assumptions\s+(\w+)\s*\.", open(os.path.join(COQ, vfile)).read(), flags=re.M)
    blocks = []
    cur = None
    for line in out.splitlines():
        if line.startswith("Closed under the global context"):
            blocks.append("closed")
            cur = None
        elif line.startswith("Axioms:"):
            cur = []
            blocks.append(cur)
        elif cur is not None and line.strip():
            m = re.match(r"^(\S+)\s*:", line)
            if m:
                cur.append(m.group(1))
    return rc == 0 and len(blocks) == len(names), log, list(zip(names, blocks))


# ------------------------------------------------------------------ implementation side


def run_impl(stream, cases, per_case_timeout=30, hashseed="0", extra_env=None):
    """Run the real bartiq on the cases (in parallel subprocesses). Returns list of result dicts, same order."""
    if not cases:
        return []
    work = os.path.join(VERIF, "build", f"impl_{os.getpid()}_{stream}")
    os.makedirs(work, exist_ok=True)
    nchunks = min(NPROC, max(1, len(cases) // 8))
    chunks = [cases[i::nchunks] for i in range(nchunks)]
    env = {**os.environ, "PYTHONPATH": os.path.join(REPO, "src") + ":" + os.path.join(VERIF, "harness"),
           "PYTHONHASHSEED": hashseed, "PYTHONWARNINGS": "ignore"}
    env.update(extra_env or {})
    procs = []
    for k, ch in enumerate(chunks):
        fin, fout = os.path.join(work, f"in{k}.json"), os.path.join(work, f"out{k}.json")
        json.dump(ch, open(fin, "w"))
        p = subprocess.Popen([PY, os.path.join(VERIF, "harness", "impl_worker.py"), stream, fin, fout, str(per_case_timeout)],
                             env=env, stdout=subprocess.PIPE, stderr=subprocess.PIPE, text=True)
        procs.append((p, fout, len(ch)))
    results_chunks = []
    for p, fout, n in procs:
        try:
            out, err = p.communicate(timeout=per_case_timeout * n + 120)
        except subprocess.TimeoutExpired:
            p.kill()
            out, err = p.communicate()
        if os.path.exists(fout):
            results_chunks.append(json.load(open(fout)))
        else:
            results_chunks.append([{"ok": False, "exc": "WorkerCrash", "msg": (err or "")[-500:]}] * n)
    shutil.rmtree(work, ignore_errors=True)
    results = [None] * len(cases)
    for k, rc in enumerate(results_chunks):
        for j, r in enumerate(rc):
            results[k + j * nchunks] = r
    return results


# ------------------------------------------------------------------ model side (inside Coq)

CASE_HEADER = """From Coq Require Import List String QArith ZArith Bool.
From Bq Require Import Expr StdSem {imports}.
{gen_imports}
Import ListNotations.
Open Scope string_scope.
"""


def run_coq_shards(tag, shard_texts, timeout=900):
    """Compile each shard with coqc (parallel); each must end with `Eval vm_compute in results.`
    where results : list (list nat * list nat).  Returns (list of per-shard parsed results or None, logs)."""
    work = os.path.join(VERIF, "build", f"cases_{os.getpid()}_{tag}")
    os.makedirs(work, exist_ok=True)
    paths = []
    for k, text in enumerate(shard_texts):
        p = os.path.join(work, "cases_" + re.sub(r"\W", "_", tag) + f"_{k}.v")
        open(p, "w").write(text)
        paths.append(p)

    def one(p):
        rc, out, err = sh(["coqc"] + COQ_FLAGS + ["-Q", work, "BqCases", p], timeout, cwd=COQ)
        if rc != 0:
            return None, (out + err)[-3000:]
        flat = " ".join(out.split()).replace("%nat", "")
        m = re.search(r"= (\[.*\]) : list \(list nat \* list nat\)", flat)
        if not m:
            return None, "cannot parse: " + flat[-1000:]
        body = m.group(1)
        res = []
        for a, b in re.findall(r"\(\s*\[([\d; ]*)\],\s*\[([\d; ]*)\]\s*\)", body):
            res.append(([int(x) for x in a.replace(";", " ").split()], [int(x) for x in b.replace(";", " ").split()]))
        if body.strip() == "[]":
            res = []
        return res, ""

    with cf.ThreadPoolExecutor(NPROC) as ex:
        outs = list(ex.map(one, paths))
    if not os.environ.get("VERIF_KEEP_CASES"):
        shutil.rmtree(work, ignore_errors=True)
    return [o[0] for o in outs], [o[1] for o in outs]


def shard(items, n):
    return [items[i:i + n] for i in range(0, len(items), n)]


# ------------------------------------------------------------------ findings, replays, evidence


def load_known():
    p = os.path.join(VERIF, "KNOWN_FINDINGS.json")
    if not os.path.exists(p):
        return []
    return json.load(open(p))["findings"]


def case_hash(obj):
    return hashlib.sha256(json.dumps(obj, sort_keys=True).encode()).hexdigest()[:12]


def write_replay(prop, payload):
    d = os.path.join(VERIF, "replays", prop)
    os.makedirs(d, exist_ok=True)
    path = os.path.join(d, case_hash(payload) + ".json")
    json.dump(payload, open(path, "w"), indent=1, sort_keys=True)
    return path


def write_evidence(prop, ev):
    d = os.path.join(VERIF, "evidence")
    os.makedirs(d, exist_ok=True)
    json.dump(ev, open(os.path.join(d, prop + ".json"), "w"), indent=1)


class Rng(random.Random):
    def frac(self, lo=-4, hi=9, dens=(1, 1, 1, 2, 3)):
        from fractions import Fraction

        return Fraction(self.randint(lo, hi), self.choice(dens))


def load_corpus(prop, stream):
    """Committed corpus cases (minimised past disagreements and pinned probes) run first."""
    d = os.path.join(VERIF, "corpus", prop)
    out = []
    if os.path.isdir(d):
        for f in sorted(os.listdir(d)):
            if f.endswith(".json"):
                c = json.load(open(os.path.join(d, f)))
                if c.get("stream") == stream:
                    out.append(c["case"])
    return out
