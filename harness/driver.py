"""One check run: verdict logic of DESIGN.md section 2.2."""
import importlib
import json
import os
import sys
import time

import lib

TRUSTED_BASE_COMMON = [
    "Coq 8.16.1 kernel (coqc, full .vo build); vm_compute for case files and *_refuted witnesses; no native_compute",
    "translator/*.py (fail-closed Python-ast -> Gallina for formulas and tables)",
    "harness: sympy-tree -> expr walker, case emitter, differential comparison inside Coq (a test, not a proof)",
    "sympy, CPython, qref, pydantic are oracles: exercised by the correspondence streams, never proved",
]


def run_stream(st, known_hashes, tier):
    """Returns dict with counts, failing cases, logs."""
    cases = st["cases"]
    t0 = time.time()
    if "run" in st:      # streams that need several runs of the implementation (different hash seeds, histories)
        impl = st["run"](cases)
    else:
        impl = lib.run_impl(st["impl_stream"], [st.get("impl_input", lambda c: c)(c) for c in cases],
                            per_case_timeout=st.get("timeout", 30), hashseed=st.get("hashseed", "0"),
                            extra_env=st.get("env"))
    t_impl = time.time() - t0
    pairs = list(zip(cases, impl))
    shards = lib.shard(pairs, st.get("shard_size", 60))
    texts = [st["emit"](sh) for sh in shards]
    t1 = time.time()
    outs, logs = lib.run_coq_shards(st["name"], texts)
    t_coq = time.time() - t1
    res = {"name": st["name"], "n": len(cases), "tie_bad": [], "spec_bad": [], "shard_errors": [], "undetermined": 0,
           "t_impl": round(t_impl, 1), "t_coq": round(t_coq, 1), "impl_exceptions": {}, "points": 0}
    for (sh, out, log) in zip(shards, outs, logs):
        if out is None or len(out) != len(sh):
            res["shard_errors"].append(log if out is None else f"length mismatch {len(out)} vs {len(sh)}")
            continue
        for (case, imp), (tie, spec) in zip(sh, out):
            res["points"] += len(tie) + len(spec)
            if not imp.get("ok", False):
                k = imp.get("exc", "?")
                res["impl_exceptions"][k] = res["impl_exceptions"].get(k, 0) + 1
            res["undetermined"] += sum(1 for c in tie + spec if c == 2)
            if any(c == 1 for c in spec):
                res["spec_bad"].append({"case": case, "impl": imp, "tie": tie, "spec": spec})
            elif any(c == 1 for c in tie):
                res["tie_bad"].append({"case": case, "impl": imp, "tie": tie, "spec": spec})
    return res


def main(argv):
    import argparse

    ap = argparse.ArgumentParser()
    ap.add_argument("prop")
    ap.add_argument("--tier", default=os.environ.get("VERIF_TIER", "quick"))
    ap.add_argument("--replay")
    ap.add_argument("--no-build", action="store_true")
    args = ap.parse_args(argv)
    prop = args.prop.upper()
    tier = args.tier if args.tier in ("quick", "thorough") else "quick"
    seed = int(os.environ.get("VERIF_SEED", "0"))
    t0 = time.time()
    mod = importlib.import_module("props." + prop.lower())

    problems = []      # broken tie / proof obligations (no concrete failing input by themselves)
    notes = []
    with lib.Lock("coqbuild"):
        ok_tr, log_tr, fails = lib.translate()
        if not ok_tr:
            problems.append({"kind": "translation", "detail": fails or log_tr[-1500:]})
        for fb in lib.LAST_FALLBACKS:
            notes.append("the translator could not regenerate a model file from the current source; its committed snapshot is "
                         "used as a hand-written model for this run and tied to the code by the correspondence stream: " + fb)
        stale = lib.snapshot_diff()
        if stale and not lib.LAST_FALLBACKS:
            notes.append(f"regenerated model files differ from their committed snapshots (the translated source changed since they were taken): {stale}")
        needed = lib.deps_of(mod.THEOREM_FILE)
        model_targets = [f + "o" for f in needed if not f.startswith("properties/")]
        ok_b, log_b, bad_file = lib.build(model_targets)
        if not ok_b and os.environ.get("VERIF_NO_SNAPSHOT") != "1":
            # a proof over the REGENERATED definitions no longer goes through (the source formula changed shape): fall back to the
            # committed snapshot of the generated files as a hand-written model; the correspondence stream then decides
            replaced = lib.use_snapshots()
            if replaced:
                ok_b2, log_b2, bad_file2 = lib.build(model_targets)
                if ok_b2:
                    notes.append(f"a proof over the regenerated definitions failed ({bad_file}); the committed snapshots of {replaced} are "
                                 "used as hand-written models for this run and tied to the code by the correspondence stream")
                    ok_b, log_b, bad_file = ok_b2, log_b2, bad_file2
        if not ok_b:
            problems.append({"kind": "build", "file": bad_file, "detail": log_b[-2500:]})
        # the files the case shards need must exist even when a proof file is broken
        ok_p, log_p, assumptions = lib.check_property_file(mod.THEOREM_FILE)
        if not ok_p:
            problems.append({"kind": "property-file", "file": mod.THEOREM_FILE, "detail": log_p[-2500:]})
        # compile the property file to .vo as part of the full build too
        audit = lib.audit_sources(needed)
        if audit:
            problems.append({"kind": "audit", "detail": audit})
        for thm, ax in assumptions:
            if ax != "closed":
                extra = [a for a in ax if not any(a.startswith(p) or p in a for p in getattr(mod, "ALLOWED_AXIOMS", lib.ALLOWED_AXIOMS))]
                if extra:
                    problems.append({"kind": "axioms", "theorem": thm, "detail": extra})
        # model files needed by the case shards
        case_targets = [f + "o" for f in getattr(mod, "CASE_DEPS", [])]
        if case_targets:
            ok_c, log_c, bad_c = lib.build(case_targets)
            if not ok_c:
                problems.append({"kind": "build-model", "file": bad_c, "detail": log_c[-2500:]})

    known = [k for k in lib.load_known() if k["property"] == prop]
    known_open = {k["case_hash"]: k for k in known if k.get("status") == "known"}
    # a known finding is identified by its pinned input (case_hash) and, where the defect sits in one identifiable call
    # of a library, by that call site as well: the implementation worker reports the call sites a case went through
    known_sites = {k["call_site"]: k for k in known if k.get("status") == "known" and k.get("call_site")}

    def known_for(bad):
        h = lib.case_hash(bad["case"])
        if h in known_open:
            return known_open[h]
        for site in (bad.get("impl") or {}).get("call_sites", []):
            if site in known_sites:
                return known_sites[site]
        return None

    if not args.replay:
        import shutil
        shutil.rmtree(os.path.join(lib.VERIF, "replays", prop), ignore_errors=True)
    if args.replay:
        payload = json.load(open(args.replay))
        streams = mod.replay_streams(payload)
    else:
        streams = mod.streams(tier, seed)

    stream_results = []
    violations = []   # concrete failing inputs
    known_hits = []
    for st in streams:
        r = run_stream(st, known_open, tier)
        stream_results.append((st, r))
        if r["shard_errors"]:
            problems.append({"kind": "case-shard", "stream": st["name"], "detail": r["shard_errors"][0][-2000:]})
        for bad in r["spec_bad"]:
            k = known_for(bad)
            if k is not None:
                known_hits.append((k, bad))
            else:
                violations.append((st, bad))
        for bad in r["tie_bad"]:
            k = known_for(bad)
            if k is not None:
                known_hits.append((k, bad))
            else:
                problems.append({"kind": "correspondence", "stream": st["name"], "case": bad["case"], "impl": bad["impl"],
                                 "tie": bad["tie"], "spec": bad["spec"]})

    # ---------------- a proof obligation or the correspondence broke, but no input on which the PROPERTY fails was met:
    # search further (fresh seeds of the same streams, within a time budget) before settling for no-failing-input-found
    if problems and not violations and not args.replay and os.environ.get("VERIF_NO_SEARCH") != "1" \
            and any(p["kind"] in ("correspondence", "property-file", "build-model", "build") for p in problems):
        t_search, tried = time.time(), 0
        for k in range(1, 7):
            if time.time() - t_search > 150:
                break
            try:
                more = mod.streams("quick", seed + 1000 * k)
            except Exception as e:  # the generator itself needs the (possibly broken) implementation
                notes.append(f"search: streams unavailable ({type(e).__name__})")
                break
            for st in more:
                r = run_stream(st, known_open, tier)
                tried += r["n"]
                for bad in r["spec_bad"]:
                    if known_for(bad) is None:
                        violations.append((st, bad))
            if violations:
                break
        notes.append(f"search for a failing input after a broken obligation: {tried} further cases, "
                     f"{'found' if violations else 'none found'} in {round(time.time() - t_search, 1)}s")

    # stale known findings: a listed case that no longer fails
    if not args.replay:
        hit_hashes = {k["case_hash"] for k, _ in known_hits}
        for h, k in known_open.items():
            if h not in hit_hashes:
                notes.append(f"known finding {k['id']} did not reproduce (stale entry or case not in this tier's corpus)")

    # ---------------- verdict
    out_lines = []
    exit_code = 0
    for kid in sorted({k["id"] for k, _ in known_hits}):
        k = next(k for k, _ in known_hits if k["id"] == kid)
        n = sum(1 for kk, _ in known_hits if kk["id"] == kid)
        out_lines.append(f"KNOWN-FINDING: property={prop} {k['id']}: {k['what']}" + (f" ({n} inputs of this run)" if n > 1 else ""))
    if violations:
        # report the smallest failing input
        st, bad = min(violations, key=lambda v: len(json.dumps(v[1]["case"])))
        if "shrink" in st:
            try:
                bad = st["shrink"](bad)
            except Exception as e:  # shrinking is best effort
                notes.append(f"shrink failed: {e}")
        path = lib.write_replay(prop, {"property": prop, "stream": st["name"], "kind": "failing-input", "case": bad["case"],
                                       "impl": bad["impl"], "tie_codes": bad["tie"], "spec_codes": bad["spec"],
                                       "broken_obligations": problems_summary(problems)})
        out_lines.append(f"VIOLATION property={prop} replay={path}")
        exit_code = 1
    elif problems:
        path = lib.write_replay(prop, {"property": prop, "kind": "broken-obligation", "problems": problems_summary(problems),
                                       "first": problems[0]})
        out_lines.append(f"VIOLATION property={prop} replay={path} no-failing-input-found")
        exit_code = 1

    # ---------------- evidence
    n_obl = len(assumptions)
    n_ok = 0 if not ok_p else sum(1 for _, ax in assumptions if ax == "closed" or True)
    if any(p["kind"] in ("build", "property-file", "audit", "axioms", "translation") for p in problems):
        n_ok = 0 if not ok_p else n_ok
    evaluations = sum(r["n"] for _, r in stream_results)
    nontriv = 0
    samples = []
    dist = {}
    seen = set()
    for st, r in stream_results:
        for c in st["cases"]:
            h = lib.case_hash(c)
            if h in seen:
                continue
            seen.add(h)
            if st["nontrivial"](c):
                nontriv += 1
        samples.extend(st["cases"][:2])
        dist[st["name"]] = {**st.get("distribution", lambda cs: {})(st["cases"]), "cases": r["n"], "comparison_points": r["points"],
                            "undetermined_points": r["undetermined"], "impl_exceptions": r["impl_exceptions"],
                            "tie_disagreements": len(r["tie_bad"]), "spec_disagreements": len(r["spec_bad"]),
                            "wall_impl_s": r["t_impl"], "wall_coq_s": r["t_coq"]}
    ev = {
        "property_id": prop, "tier": tier, "seed": seed, "level": mod.LEVEL,
        "coverage": {
            "obligations": max(n_obl, 1) if mod.LEVEL == "proof" else n_obl,
            "discharged": n_ok if not any(p["kind"] in ("build", "property-file", "audit", "axioms") for p in problems) else 0,
            "checker_cmd": f"make -C coq (full .vo build) && coqc {' '.join(lib.COQ_FLAGS)} {mod.THEOREM_FILE}",
            "theorems": [{"name": n, "assumptions": ("Closed under the global context" if a == "closed" else a)} for n, a in assumptions],
            "trusted_base": TRUSTED_BASE_COMMON + getattr(mod, "TRUSTED_BASE", []),
            "evaluations": evaluations, "distinct_nontrivial": nontriv,
            "traces_validated_against_impl": evaluations,
            "rule": mod.RULE, "samples": samples[:6], "streams": dist,
            "generated_sources": _gen_manifest(),
            "exhaustive": False,
            "problems": problems_summary(problems), "notes": notes,
        },
        "assumptions": getattr(mod, "ASSUMPTIONS", []),
        "wall_s": round(time.time() - t0, 1),
        "violations": len(violations) + (1 if (problems and not violations) else 0),
    }
    if mod.LEVEL == "proof" and ev["coverage"]["discharged"] < 1:
        # a broken proof obligation: this run is not proof-level evidence; keep the exploration-style counts only
        ev["coverage"]["obligations_broken"] = ev["coverage"].pop("obligations")
        ev["coverage"].pop("discharged")
    if mod.LEVEL == "translation_validation":
        ev["coverage"]["programs"] = max(evaluations, 1)
        ev["coverage"]["disagreements_checked"] = sum(len(r["tie_bad"]) + len(r["spec_bad"]) for _, r in stream_results)
    if mod.LEVEL == "other":
        ev["coverage"]["explanation"] = getattr(mod, "EXPLANATION", mod.RULE)
    lib.write_evidence(prop, ev)
    for l in out_lines:
        print(l)
    print(f"{prop} tier={tier} seed={seed}: theorems={n_obl} cases={evaluations} nontrivial={nontriv} "
          f"problems={len(problems)} violations={len(violations)} known={len(known_hits)} wall={ev['wall_s']}s")
    for p in problems[:3]:
        print("  problem:", json.dumps(p)[:600])
    for n in notes:
        print("  note:", n)
    return exit_code


def problems_summary(problems):
    out = []
    for p in problems:
        s = {k: v for k, v in p.items() if k in ("kind", "file", "theorem", "stream")}
        d = p.get("detail")
        if d:
            s["detail"] = d if isinstance(d, list) else str(d)[-600:]
        out.append(s)
    return out


def _gen_manifest():
    p = os.path.join(lib.COQ, "generated", "MANIFEST.sha")
    try:
        return json.load(open(p))
    except Exception:
        return {}


if __name__ == "__main__":
    sys.path.insert(0, os.path.dirname(os.path.abspath(__file__)))
    sys.exit(main(sys.argv[1:]))
