#!/usr/bin/env python3
"""MANIFEST.setup_cmd: regenerate coq/generated from /repo and do a full .vo build of the development."""
import os
import sys

sys.path.insert(0, os.path.dirname(os.path.abspath(__file__)))
import lib  # noqa: E402

with lib.Lock("coqbuild"):
    ok, log, fails = lib.translate()
    print(log)
    ok_b, log_b, bad = lib.build()
    print(log_b[-3000:])
    if not (ok and ok_b):
        print("SETUP FAILED", fails, bad)
        sys.exit(1)
print("setup ok")
