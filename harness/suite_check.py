#!/usr/bin/env python3
"""Run /repo's test suite (xdist) and compare with the pinned baseline: every stable_pass test must pass."""
import json, subprocess, sys, xml.etree.ElementTree as ET
base = json.load(open("/root/.vp/BASELINE.json"))
xml = "/tmp/suite_junit.xml"
subprocess.run(["/venv/bin/python", "-m", "pytest", "-q", "-p", "no:cacheprovider", "--timeout=900", "-n", "12",
                "--continue-on-collection-errors", f"--junitxml={xml}"], cwd="/repo", capture_output=True, timeout=3000)
passed = set()
for tc in ET.parse(xml).getroot().iter("testcase"):
    if not any(ch.tag in ("failure", "error", "skipped") for ch in tc):
        passed.add(f"{tc.get('classname')}::{tc.get('name')}")
missing = [t for t in base["stable_pass"] if t not in passed]
print(f"passed={len(passed)} baseline={len(base['stable_pass'])} missing_from_baseline={len(missing)}")
for m in missing[:20]:
    print("  NOT PASSING:", m)
sys.exit(1 if missing else 0)
