#!/usr/bin/env python3
"""Writes /verif/MANIFEST.json from the table below (one entry per claimed property)."""
import json
import os

VERIF = os.path.dirname(os.path.dirname(os.path.abspath(__file__)))
props = [json.loads(l) for l in open(os.path.join(VERIF, "properties.jsonl"))]

CLAIMED = {
    "C06": dict(
        category="proof",
        text="Closed theorems about the comparison that decides every size constraint (a polynomial normal form modelling "
             "compare/expand): 'violated' is only said of two expressions that differ by the same non-zero integer under every "
             "assignment, 'satisfied' only of two that agree under every assignment, a failing constraint evaluation always goes "
             "back to a 'violated' verdict, and two integer sizes are always decided. So nothing consistent is rejected, and "
             "compilation fails only if the sizes differ for every assignment. Partial: that preprocessing generates the right "
             "constraint for every re-declared port (detection) is checked by the size-mismatch stream against the bottom-up "
             "denotation (mismatch at some port <=> BartiqCompilationError at compile or evaluate, 4 total assignments per case). New: preprocessing loses no size declaration (PortVarFacts: every constant or compound size becomes a retained constraint, a repeated symbol a constraint between port variables, a new symbol a local variable).",
        design_ref="DESIGN.md section 5 C06",
        note="Trusted: Coq kernel; the normal form is a model of sympy's expand on the polynomial fragment (tied by the stream: "
             "constraint statuses and error classes of the real code); both sizes integer-valued.",
        technique="Coq soundness proof of the constraint comparison + differential mismatch stream against a denotational spec",
    ),
    "C11": dict(
        category="proof",
        text="The standard reading of the language is an executable Gallina lexer + precedence-climbing parser (the specification). "
             "Closed theorems: it reads every expression tree with at most four operators (49537 trees: every shape, every operator "
             "of + - * / // % ** and unary minus) back exactly from its minimal-parentheses printing (exhaustive, the bound is in the "
             "statement), calls keep their arguments in order; the operator, unary, reserved-word and function tables regenerated "
             "from ast_parser.py / sympy_interpreter.py are the standard ones (caret and BitXor are power), built-in names are "
             "looked up in lower case, unknown names stay uninterpreted with their arguments. The real parser is compared with "
             "the specification at rational points on EVERY pair and EVERY triple of operators, reserved words and ports next to "
             "every operator, mixed-case built-ins and random strings. Partial: CPython's ast.parse and the re module are trusted. New: the round trip of the specification grammar is now proved for EVERY tree (parse_tokens (ptoks e) = Some e, by induction, with an explicit fuel bound linear in the number of tokens); the exhaustive 49537-tree check is kept as a test.",
        design_ref="DESIGN.md section 5 C11",
        note="Trusted: Coq kernel; translator (tables, fail-closed); CPython ast/re; sympy arithmetic.",
        technique="Coq specification parser with exhaustive bounded round-trip theorem + generated-table theorems + exhaustive operator pair/triple differential stream",
    ),
    "C12": dict(
        category="translation_validation",
        text="Round-trip validation per expression: the real serializer's text is read back by the real parser and both sympy "
             "objects are compared inside Coq by value at rational points (perfect squares, so half-integer powers are exact), "
             "free symbols and uninterpreted calls; every float of the original must appear among the number tokens of the text "
             "to 15 significant digits; independently the specification grammar of C11 reads the text and must give the "
             "original's value. Closed theorems cover the specification grammar (bounded exhaustive round trip), the caret-as-power "
             "reading and the printer override table. sympy's StrPrinter is an oracle, so this is validation, not a theorem over all expressions.",
        design_ref="DESIGN.md section 5 C12",
        note="Trusted: sympy StrPrinter; translator for the printer overrides; values under floor/ceil/mod of a float are not compared (ill-conditioned).",
        technique="differential round-trip validation inside Coq + specification-grammar reading of the printed text",
    ),
    "C18": dict(
        category="proof",
        text="Closed theorems over tables regenerated from integrations/latex.py on every run: every port direction (input, output, "
             "through) has a section, input parameters have a section, and -- given the generated fallback flag -- no non-empty name "
             "makes the name formatting raise; without the fallback exactly the names with an empty part around the first underscore "
             "raise. Completeness (LatexWalkFacts, over the traversal and section assembly TRANSLATED from latex.py: _walk, "
             "_format_resources, _get_resources_lines, the SECTIONS getters): _walk yields every routine of the hierarchy exactly "
             "once, every resource of every routine has a line (the root's under its bare name, a subroutine's under its name) and "
             "there are exactly as many lines as resources, the root's resources are listed whatever the flag, every port has a line "
             "in the section of its direction, every input parameter an entry. The streams render every identifier up to length 3 over {x,_,1} in every role, and random hierarchies with their "
             "compiled forms, in all four modes (with/without subroutine resources, paged/unpaged) and compare the number of entries "
             "per section with the document AND with the translated assembly evaluated in Coq (tie). Partial: sympy's latex() on expressions is an oracle; entry typography is not modelled.",
        design_ref="DESIGN.md section 5 C18",
        note="Trusted: Coq kernel; translator (SECTIONS table, port getters, fallback guard, _walk and the resource / port / parameter line assembly from fixed statement shapes; fail-closed); sympy latex.",
        technique="Coq theorems over translator-generated rendering tables + exhaustive short-name and hierarchy rendering stream",
    ),
    "C13": dict(
        category="translation_validation",
        text="Round-trip validation per document: the real code exports each generated routine (uncompiled and compiled), the export is reloaded through the pydantic schema, re-imported and re-compiled, and each pair is compared inside Coq for equal structure (names, nesting, types, ports, connections, links incl. multi-level targets, repetition kind and fields) and mathematically equal expressions at rational points. Closed theorems cover the NAMING LAYER of the format for every hierarchy: the model of the import applied to the model of the export gives the routine back (endpoints child.port, link targets path.to.child.param split at the last dot, children), malformed names are refused rather than misread; the model's export is tied to the real exporter on every case (the connection and link strings of the real document must be exactly the model's and the model's import must read them). The other fields (expression text, sequence fields, pydantic plumbing) are validated per document, which is why the level stays translation validation; finding F13 is pinned in the corpus.",
        design_ref="DESIGN.md section 5 C13",
        note="Trusted: pydantic/qref schema validation; expression text round trip is C12's subject (expressions compared by value here).",
        technique="differential round-trip validation with semantic comparison inside Coq (vm_compute) + Coq proof of the export/import round trip for the naming layer",
    ),
    "C14": dict(
        category="other",
        text="Monitored differential runs of the real code: each case in six processes (five PYTHONHASHSEED values cold, one after 25 "
             "unrelated compilations), every API call made twice with deep snapshots of all arguments before and after, exported "
             "documents compared byte for byte; plus one closed theorem (the processing/export order of children is a complete "
             "topological listing and a function of the document alone) and an in-Coq check that every exported child order is a "
             "topological listing of the source's children. The property is about runtime state (aliasing, caches, hash "
             "randomisation) that an executable Gallina model cannot exhibit, so the claim is a test, partial by nature.",
        design_ref="DESIGN.md section 5 C14, section 8",
        note="Trusted: the harness's process orchestration and sha256 comparison of exports; pickle/model_dump_json as snapshot oracles.",
        technique="monitored multi-process differential runs (test) + one Coq theorem on the deterministic processing order",
    ),
    "C17": dict(
        category="proof",
        text="Closed theorems: any reported verification problem makes compile_routine fail with a compilation error before "
             "compiling (and skip_verification bypasses exactly that); a repeated routine without exactly one child or with own "
             "resources is a problem at any depth (predicates regenerated from verification.py); a connection cycle of any length "
             "and a multiply connected port are problems (Kahn soundness on the port graph); the child loop of the compile model "
             "never fails a dictionary lookup at any depth. Partial: exceptions and non-termination inside sympy cannot be "
             "exhibited by the model; every stream records the exception class of the real code under a per-case time limit, "
             "and the robust/faults streams check outcome classes on valid and single-fault hierarchies.",
        design_ref="DESIGN.md section 5 C17",
        note="Trusted: Coq kernel; hand model of qref.verify_topology (outside the repository) tied by the fault stream; sympy.",
        technique="Coq proofs of rejection and lookup safety + fault-injection differential stream",
    ),
    "C19": dict(
        category="proof",
        text="Closed theorems about _get_leading_terms and its two helpers as regenerated from analysis.py on every run: for the "
             "exponent tuples of a one-variable polynomial listed highest power first, exactly the leading power is returned (lower "
             "powers never appear, the leading one is never dropped), a constant gives x^0; in any order the first listed term is "
             "kept. The stream runs the real BigO on every support pattern of degree 0..6 with numeric and symbolic coefficients.",
        design_ref="DESIGN.md section 5 C19",
        note="Trusted: Coq kernel; translator (three small function shapes, fail-closed); sympy Poly.terms() lists the highest power first "
             "(exercised by the stream: the exponent tuples sympy returns are fed to the generated function inside Coq).",
        technique="Coq proof over translator-generated functions + exhaustive support-pattern differential check",
    ),
    "C20": dict(
        category="proof",
        text="Closed theorems, for every carrier with a total order, every cost function, step size, momentum and budget: a returned "
             "history lies within the bounds, starts at the starting point and ends at the returned optimum, the optimum lies within "
             "the bounds, the reported cost is the cost function at the optimum; an out-of-bounds start and running out of iterations "
             "are errors, never values. The arithmetic and the tests of the loop (new velocity, next value, clipping, 'hit a bound', "
             "'converged', 'start within bounds', the finite-difference gradient) are TRANSLATED from analysis.py on every run "
             "(GenGradDescent.v, terms over an abstract carrier); the control skeleton around them is checked statement by statement "
             "(fail closed). The model is compared BIT-EXACTLY (binary64) with the real Optimizer.gradient_descent on "
             "four families of float cost functions; the minimize() wrapper is checked against the theorems' conclusions.",
        design_ref="DESIGN.md section 5 C20",
        note="Trusted: Coq kernel and its primitive floats (vm_compute); hypotheses exclude NaN from the cost function; translator/gen_graddesc.py.",
        technique="Coq invariant proof over an abstract ordered carrier, loop terms translated from the source + bit-exact float correspondence",
    ),
    "C15": dict(
        category="proof",
        text="Closed theorems, for dictionaries of any size and nesting depth and any rational multipliers: the expansion order is a complete topological listing of the keys and ANY dependency cycle makes the expansion fail (no result); every entry of the expanded dictionary mentions base resources only and carries the TOTAL multiplier along all decomposition paths (expand_dict_is_path_sum); applying it to a routine's resources leaves each base resource with its previous value plus the decomposed resources' previous values times the path-sum multiplier (aggregate_is_linear_path_sum); decomposed resources are removed or kept with type other; resources not decomposed keep their type. The model is tied to add_aggregated_resources by an exhaustive stream: every graph over 3 names (quick) / 4 names (thorough), both removal modes, random subsets of resources present, random graphs to 6 names with symbolic multipliers, the caller's dictionary unchanged. Exercised, not proved: the walk over the hierarchy and symbolic multipliers (the theorems are stated at a numeric point).",
        design_ref="DESIGN.md section 5 C15",
        note="Trusted: Coq kernel; hand model of transform.py tied by the exhaustive/random stream; graphlib.TopologicalSorter.",
        technique='Coq proof that the model of add_aggregated_resources is the linear path-sum rewrite (unbounded) + exhaustive small-graph differential correspondence',
    ),
    "C16": dict(
        category="proof",
        text="Closed theorems on the wire model of calculate_highwater: the loop invariant (running flow before child k = total size of "
             "the wires alive there), hence the list of watermarks the code maximises over equals, element by element, the list of "
             "cuts (before the first child, bypassing wires + child highwater, after the last child), and the maximum dominates each "
             "cut. The quantities of that model are DEFINED through what is translated from derived_resources.py on every run "
             "(GenHighwater.v: the two expressions of the loop body, the inflow / outflow port directions, the default resource "
             "names; the remaining statements of calculate_highwater are checked one by one, fail closed). The stream compares every "
             "node's real qubit_highwater (compiled tree read in the SOURCE order of children) with the port-level model and with the "
             "wire-level cut specification at natural-number points and at points with negative parameters but non-negative sizes.",
        design_ref="DESIGN.md section 5 C16",
        note="Trusted: Coq kernel; the identification of port sums with wire sums (full single wiring, equal ends: C02) is an assumption of "
             "the abstract theorem, exercised by the stream; non-negative sizes.",
        technique="Coq loop-invariant proof on a wire model + differential check of the real highwater against the cut specification",
    ),
    "C08": dict(
        category="proof",
        text="Closed theorems for the pieces of the accumulation: the value installed by default propagation reads as the plain "
             "sum/product of the children's values; propagation never replaces or retypes an explicit definition; each generated "
             "repetition sum is linear in the child's value (weights factor out). Partial: their composition over the tree is "
             "checked by the stream: every resource of every node of the real compiled tree equals the bottom-up denotation "
             "(sum/product over exactly the children that have it), plus the weighted leaf-sum for leaf-only additive resources. New: for every non-repeated routine the compile model compiles, the value of a propagated additive / multiplicative resource is at every point the sum / product of the children's own compiled values (ChildRefFacts).",
        design_ref="DESIGN.md section 5 C08",
        note="Trusted: Coq kernel; compile/preprocessing model tied by the stream; one resource name with two types among siblings is outside the domain.",
        technique="Coq lemmas on propagation and linearity of generated repetition formulas + denotational comparison stream",
    ),
    "C09": dict(
        category="proof",
        text="Closed theorems: every lookup the traversal performs (dictionaries, children, wires, predecessors) is by unique name and "
             "invariant under permutation of the listing; substitution and evaluate are invariant under permutation of the "
             "dictionary; local variables compile to the same values in any dependency-respecting order; and (InputsOrderFacts, "
             "go_sim, any carrier whose expression step reads its dictionary through lookups - proved for the compile model and the "
             "denotation) two listings of the same inputs dictionary compile a routine to the same tree, all children identically. "
             "Children (SiblingOrderFacts, compile_children_swap / go_children_swap): two neighbouring children of the processing order "
             "that are not wired to each other and feed no common port can be compiled in either order - the same two compiled "
             "children, the same later children, an equivalent parameter map; and so (compile_children_reorder / go_children_reorder) for any "
             "two processing orders connected by a sequence of such swaps: the same children as a multiset, an equivalent map. "
             "topological_orders_connected: every two orders in which no child is fed by a later one are so connected; "
             "children_order_ordered: the compiler's own order (Kahn) is one; children_listing_free composes them: however the "
             "children are listed, the loop compiles the same children and an equivalent map (hypothesis: no port fed by two "
             "different children, which verify_topology enforces). Partial: the parent's own values after its children, independence from the choice among topological processing orders and order-insensitivity of "
             "the preprocessing stages are exercised by the hier-permute stream (all list-valued fields permuted at every level; "
             "thorough: all child permutations up to 4 children) on the real code.",
        design_ref="DESIGN.md section 5 C09",
        note="Trusted: Coq kernel; compile model tied by the stream; qref's own sorting on load is not relied upon.",
        technique="Coq permutation-invariance lemmas + differential permutation stream",
    ),
    "C02": dict(
        category="proof",
        text="Closed theorems: for EVERY routine the traversal compiles (any carrier): when children have distinct names and no port is the target of two wires, each child is compiled with the variable #q of every wired input/through port bound to exactly the compiled size of the port at the other end -- a port of the parent, or a port of a sibling compiled earlier in the topological order (go_wires); in the compile model a child port declared as its own variable carries exactly that size, so both ends of the wire are equal (wire_ends_equal); the wire law for one merge; sizes are covered by the meaning theorem of C01 (go_natural). The stream checks all connections of all nodes of the real compiled trees at 4 rational points and against the bottom-up denotation. Exercised, not proved: declared (constant / compound) sizes agreeing with the wire is C06's constraint machinery; output ports of routines with children.",
        design_ref="DESIGN.md section 5 C02",
        note="Trusted: Coq kernel; compile model tied by the stream; declared sizes on outputs of routines with children are outside (finding F10, recorded in DESIGN.md).",
        technique='Coq proof of the wire law for a whole node of the compile model (any carrier) + differential correspondence on all connections',
    ),
    "C03": dict(
        category="proof",
        text="Closed theorems: substituting a scope dictionary is invariant under any renaming injective on the scope, even onto "
             "names occurring in the compiled values (subst_rename_scope); substitution and evaluation are equivariant under "
             "injective renamings; the traversal is parametric in the carrier of compiled values, so compiled values are never "
             "substituted into again (go_natural); evaluate reads assigned values in the original environment (evaluate_sound). "
             "The hier-rename stream renames one random scope onto the shared name pool and compares the two real compilations "
             "at every node. Whole node (NodeRenameFacts): go_node_rename - for any carrier and any expression step that does not "
             "care how the scope's names are spelled, a subroutine whose parameters, local variables, link sources and all their "
             "occurrences are renamed by an injective map (fixing port variables and child.resource references) compiles to the "
             "same node, children identically; compile_node_rename - the compile model on well-scoped binder-free expressions is "
             "such a step (incl. equivariance of the ordering of local variables, kahn_rename). Partial: nodes with a repetition, "
             "expressions with sums / products, the preprocessing stages and the renaming of promoted top-level inputs are "
             "exercised by the stream, not proved.",
        design_ref="DESIGN.md section 5 C03",
        note="Trusted: Coq kernel; compile/evaluate models tied by streams; iterator symbols are outside the renaming pool.",
        technique="Coq alpha-invariance lemmas + parametricity of the traversal + differential renaming stream",
    ),
    "C04": dict(
        category="proof",
        text="Closed theorems: WHOLE TREE -- if the scoped traversal (the compile step refusing any expression that mentions a symbol neither defined by the node's dictionary nor in G) answers, the compile model answers the same tree and every symbol of every value stored anywhere in it (node inputs, port sizes, resources, repetition counts and sequence fields, retained constraints, at every depth) is in G (compiled_tree_closed, from a generic invariant theorem go_inv valid for every carrier and a refinement theorem go_mono); plus the free-variable lemmas of simultaneous substitution. The stream runs the scoped compile (G = the preprocessed root's parameters, root port symbols, iterator / number-of-terms symbols) on every generated case and reports when it does not answer although the compile model does, and checks on every real compiled tree that all symbols are among the node's and the root's input_params. Partial: iterator symbols are admitted in every field by the theorem (the stream checks them strictly); per-node input_params completeness is exercised.",
        design_ref="DESIGN.md section 5 C04",
        note="Trusted: Coq kernel; compile model tied by the stream; sympy free_symbols.",
        technique='Coq proof of whole-tree closure for the compile model (invariant + refinement of the generic traversal) + closure check on real compiled trees',
    ),
    "C10": dict(
        category="proof",
        text="Closed theorems for the whole pipeline and the whole tree (SkeletonFacts): preprocess_skel - every preprocessing "
             "stage, and so preprocess for whatever list of stages is generated, keeps at every node the name, type, "
             "connections, repetition, the ports (names and directions, up to order), every source resource unchanged, adds "
             "only additive/multiplicative resources under names the node did not define, only appends input parameters and "
             "constraints, and keeps the children in order; go_shape (any carrier) - every node of the compiled tree is the "
             "image of the routine it was compiled from, children matched by name in wiring order, at every depth; go_nodes - "
             "with distinct child names the tree has exactly as many nodes as the source; compile_routine_whole_tree and "
             "compile_routine_root_resources compose the two. The stream checks the same on the real compiled trees.",
        design_ref="DESIGN.md section 5 C10, section 10.3",
        note="Trusted: Coq kernel; preprocessing and compile models tied to the code by the stream (structure of real compiled trees vs the source).",
        technique="Coq structural / fuel induction over the preprocessing stages and the traversal + structural comparison of real compiled trees with the source",
    ),
    "C01": dict(
        category="proof",
        text="Closed theorem go_natural, for every carrier and every interpretation of the operators, every tree and depth: "
             "evaluating the compile model's output at a point equals running the same _compile traversal on VALUES with the "
             "original local expressions (no substitution anywhere). The compile model is a hand-written Gallina transcription "
             "of _compile.py/preprocessing.py tied to the code by a differential stream (model vs real compile_routine at every "
             "node/resource/port, compared inside Coq), and an independent bottom-up specification den_src written from the "
             "property text on the SOURCE routine is compared with the real code on every case. Partial in one respect: "
             "den (IR-level) = den_src (source-level, i.e. the four preprocessing stages preserve meaning) is validated by the "
             "stream (model vs spec), not proved.",
        design_ref="DESIGN.md section 5 C01, section 3.5",
        note="Trusted: Coq kernel; hand model of _compile/preprocessing (tied by the stream); sympy's subs(simultaneous=True) "
             "is simultaneous substitution; translator for the stage order and the repetition dispatch table.",
        technique="Coq naturality theorem over a generic traversal + differential correspondence against an executable denotational spec",
    ),
    "C05": dict(
        category="proof",
        text="Closed theorems about the evaluate model: identical result for every permutation of a duplicate-free assignment; "
             "soundness for every carrier/interpretation (value of the result at rho = value of the original after the "
             "assignment); composition of steps with closed values; empty assignment; untouched symbols; remaining "
             "input_params. The stream runs the real evaluate as listed / permuted / split / with user functions and checks "
             "both model agreement and the property itself on the real trees. The 15-significant-digit clause is an oracle "
             "assumption about sympy's numeric folding, exercised by the stream only (partial).",
        design_ref="DESIGN.md section 5 C05",
        note="Trusted: Coq kernel; hand model of _evaluate_internal (tied by the stream); sympy numerics (N/round) as oracle.",
        technique="Coq proofs about simultaneous substitution (permutation, soundness, composition) + differential correspondence",
    ),
    "C07": dict(
        category="proof",
        text="Six closed theorems (induction on count) about the formulas regenerated from repetitions.py on every run: "
             "constant/arithmetic/geometric/custom/closed-form sums and the constant-sequence product equal the unrolled "
             "sum/product for every natural count and every value of the parameters; a correspondence stream runs the real "
             "Repetition.sequence_sum/prod against the generated formula and the unrolled sum inside Coq.",
        design_ref="DESIGN.md section 5 C07",
        note="Trusted: Coq kernel, translator (python operators on sympy objects read as arithmetic), sympy's own arithmetic "
             "(exercised by the stream only). Embedding in the hierarchy is covered by the compile model of C01.",
        technique="Coq induction proofs over translator-generated formulas + differential correspondence in vm_compute",
    ),
}

checks = []
for p in props:
    pid = p["id"]
    if pid not in CLAIMED:
        continue
    c = CLAIMED[pid]
    checks.append({
        "property_id": pid,
        "quick_cmd": f"./check {pid} --tier quick",
        "thorough_cmd": f"./check {pid} --tier thorough",
        "evidence_file": f"/verif/evidence/{pid}.json",
        "replay_cmd_template": f"./check {pid} --replay {{path}}",
        "engine": "coq-model",
        "level_claimed": {"category": c["category"], "text": c["text"], "design_ref": c["design_ref"]},
        "level_note": c["note"],
        "technique": c["technique"],
    })

NA_REASON = "check not built yet (work in progress, see DESIGN.md section 5)"
manifest = {
    "version": 1,
    "setup_cmd": "./check --setup",
    "hooks": {
        "guard": "BARTIQ_VERIF",
        "enable": "no hooks: checks import bartiq from /repo/src unmodified (PYTHONPATH=/repo/src)",
        "baseline_off_cmd": "cd /repo && /venv/bin/python -m pytest -q -p no:cacheprovider --timeout=900 --continue-on-collection-errors",
        "source_commits": [],
        "add_only": True,
    },
    "engines": [{"name": "coq-model", "path": "/verif/coq", "serves_properties": sorted(CLAIMED),
                 "kind_free_text": "Coq 8.16.1 development (model + theorems), translator-generated definitions, differential correspondence harness"}],
    "checks": checks,
    "not_applicable": [{"property_id": p["id"], "reason": NA_REASON} for p in props if p["id"] not in CLAIMED],
}
fixes = os.path.join(VERIF, "FIX_COMMITS.txt")
if os.path.exists(fixes):
    manifest["hooks"]["source_commits"] = [l.split()[0] for l in open(fixes) if l.strip()]
json.dump(manifest, open(os.path.join(VERIF, "MANIFEST.json"), "w"), indent=1)
print("claimed:", sorted(CLAIMED))
