"""Regenerates the round-2 / round-3 seeded-change tables of DESIGN.md from seeded/*/meta.json (between markers)."""
import glob
import json
import re

P = "/verif/DESIGN.md"
s = open(P).read()


def table(rnd):
    rows = []
    for f in sorted(glob.glob(f"/verif/seeded/*-r{rnd}-*/meta.json")):
        m = json.load(open(f))
        sid = f.split("/")[-2]
        res = m["detected_by"]["result"].replace("|", "/").replace("\n", " ")
        low = res.lower()
        if "broken obligation only" in low:
            first = "broken obligation only, then failing inputs"
        elif "missed" in low:
            first = "MISSED, then caught"
        else:
            first = "caught"
        needs = m["what_it_needs_to_manifest"].replace("|", "/").replace("\n", " ")
        rows.append(f"| {sid} | {needs[:170]}... | {m['property']} | {first}: {res[:230]} |")
    n = len(rows)
    c = sum(1 for r in rows if "| caught:" in r)
    b = sum(1 for r in rows if "| broken obligation only" in r)
    ms = sum(1 for r in rows if "| MISSED" in r)
    head = ("| seeded change | needs (abridged; full text in meta.json) | property | outcome |\n|---|---|---|---|\n")
    return head + "\n".join(rows) + f"\n\nRound {rnd} totals: {n} changes; {c} caught on the first attempt, {b} reported only as a broken obligation until the stream was widened, {ms} missed (or caught too weakly) until the generator was widened.\n"


for rnd in (2, 3, 4, 5, 6, 7, 8, 9, 10, 11, 12, 13, 14):
    a, b = f"<!-- SEEDED-R{rnd}-BEGIN -->", f"<!-- SEEDED-R{rnd}-END -->"
    if a in s:
        s = s[:s.index(a) + len(a)] + "\n" + table(rnd) + s[s.index(b):]
open(P, "w").write(s)
