#!/usr/bin/env python3
"""Re-run every recorded seeded change against the current machinery: for each /verif/seeded/<id>/, a scratch worktree of
/repo's HEAD gets patch.diff applied and the property's quick check is run with BARTIQ_REPO pointing at it.
Prints one line per seeded change: DETECTED (with counts) / MISSED / PATCH-DOES-NOT-APPLY.  Nothing in /repo is touched."""
import glob
import json
import os
import re
import subprocess
import sys

VERIF = os.path.dirname(os.path.dirname(os.path.dirname(os.path.abspath(__file__))))   # works from a snapshot copy too
only = sys.argv[1:]
rows = []
for d in sorted(glob.glob(VERIF + "/seeded/*/")):
    sid = os.path.basename(d.rstrip("/"))
    if only and not any(o in sid for o in only):
        continue
    meta = json.load(open(d + "meta.json"))
    prop = meta["property"]
    wt = f"/tmp/wt/replay-{os.getpid()}-{sid}"
    subprocess.run(["git", "-C", "/repo", "worktree", "remove", "--force", wt], capture_output=True)
    subprocess.run(["git", "-C", "/repo", "worktree", "add", "-q", "--detach", wt, "HEAD"], check=True, capture_output=True)
    try:
        ap = subprocess.run(["git", "-C", wt, "apply", "--3way", d + "patch.diff"], capture_output=True, text=True)
        if ap.returncode != 0:
            ap = subprocess.run(["git", "-C", wt, "apply", d + "patch.diff"], capture_output=True, text=True)
        if ap.returncode != 0:
            rows.append((sid, prop, "PATCH-DOES-NOT-APPLY (a later fix commit rewrote the same lines)", ""))
            print(*rows[-1], flush=True)
            continue
        env = {**os.environ, "BARTIQ_REPO": wt}
        out = subprocess.run([VERIF + "/check", prop], capture_output=True, text=True, env=env, cwd=VERIF).stdout
        m = re.search(r"problems=(\d+) violations=(\d+)", out)
        viol = "VIOLATION" in out
        nf = "no-failing-input-found" in out
        status = "MISSED" if not viol else ("DETECTED(obligation-only)" if nf else "DETECTED")
        rows.append((sid, prop, status, m.group(0) if m else out[-200:]))
    finally:
        subprocess.run(["git", "-C", "/repo", "worktree", "remove", "--force", wt], capture_output=True)
    print(*rows[-1], flush=True)
# leave the generated files regenerated from /repo itself
subprocess.run([VERIF + "/check", "--setup"], capture_output=True)
missed = [r for r in rows if r[2] == "MISSED"]
stale = [r for r in rows if r[2].startswith("PATCH")]
print(f"\n{len(rows)} seeded changes: {len(rows) - len(missed) - len(stale)} detected, {len(missed)} missed {[r[0] for r in missed]}, "
      f"{len(stale)} no longer apply to HEAD {[r[0] for r in stale]}")
