"""make_prompts.py <round> <outdir>: one prompt per property for a fresh sub-agent (text of the property + a list of the
mechanisms already used for it, so that the new change is a different one).  Nothing from /verif's machinery goes in."""
import glob
import json
import os
import sys

rnd, outdir = sys.argv[1], sys.argv[2]
here = os.path.dirname(os.path.abspath(__file__))
verif = os.path.dirname(os.path.dirname(here))
tmpl = open(os.path.join(here, "PROMPT_TEMPLATE.txt")).read()
HINTS = ("Think about kinds of slip not yet used: a wrong default value, an `is`/`==` confusion, a shallow copy, mutation of a "
         "shared default argument, a cache keyed too coarsely, an exception swallowed or re-raised as another class, a boundary "
         "case (empty list, zero, one element, None, negative number), string handling (case, prefix / suffix match instead of "
         "equality), sorting keys, dictionary update order, float vs int handling, an early return, a loop that stops one short, "
         "a condition on the wrong object of two similar ones, an argument forwarded to one of two calls only.")
os.makedirs(outdir, exist_ok=True)
for line in open(os.path.join(verif, "properties.jsonl")):
    p = json.loads(line)
    pid = p["id"]
    wt = f"/tmp/wt/r{rnd}-{pid.lower()}"
    text = f"{pid}: {p.get('title', '')}\n\n{p['statement']}\n\nQuantifier: {p.get('quantifier')}\n\nRelevant files: {', '.join(p.get('anchors', {}).get('files', []))}\n"
    prev = []
    for d in sorted(glob.glob(os.path.join(verif, "seeded", f"{pid}-*"))):
        m = json.load(open(os.path.join(d, "meta.json")))
        prev.append(f"- ({', '.join(m.get('files_changed', []))}) {m.get('what_it_needs_to_manifest', '')[:300]}")
    avoid = ("Previous reviewers already produced the changes listed below for this property. Yours must be a DIFFERENT mechanism "
             "in a different function (other source files of the project that the property's behaviour passes through are welcome). "
             + HINTS + "\n" + "\n".join(prev))
    open(os.path.join(outdir, f"prompt{rnd}_{pid}.txt"), "w").write(
        tmpl.replace("WORKTREE", wt).replace("PROPTEXT", text).replace("AVOID", avoid))
print("written", outdir)
