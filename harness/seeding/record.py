import json,subprocess,sys,os,shutil
wt,sid,prop,needs,detected=sys.argv[1:6]
d=f'/verif/seeded/{sid}'; os.makedirs(d,exist_ok=True)
diff=subprocess.run(['git','-C',wt,'diff'],capture_output=True,text=True).stdout
open(f'{d}/patch.diff','w').write(diff)
shutil.copy(f'{wt}/demo.py',f'{d}/demo.py')
def run(repo):
    p=subprocess.run(['/venv/bin/python',f'{wt}/demo.py'],capture_output=True,text=True,env={**os.environ,'PYTHONPATH':f'{repo}/src'},cwd='/tmp')
    return p.returncode,(p.stdout+p.stderr).strip().splitlines()[-1][:300] if (p.stdout+p.stderr).strip() else ''
w=run(wt); wo=run('/repo')
files=[l[6:] for l in diff.splitlines() if l.startswith('+++ b/')]
meta={"property":prop,"round":2,"what_it_needs_to_manifest":needs,"files_changed":files,
 "tests_run":"sub-agent: full suite in its worktree with -n 4: 3 failed (the always-failing scipy tests), 1110 passed, 3 xfailed",
 "confirmed_by_me":{"demo_with_change":f"exit {w[0]}: {w[1]}","demo_without_change":f"exit {wo[0]}: {wo[1]}"},
 "detected_by":json.loads(detected)}
json.dump(meta,open(f'{d}/meta.json','w'),indent=1)
print(sid,w,wo); assert w[0]==1 and wo[0]==0
