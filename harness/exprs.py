"""Expression interchange between the generators, bartiq (sympy) and Coq.

JSON form (lists, so it survives json round trips):
  ["n", num, den]            exact rational
  ["s", name]                symbol
  ["o", op, [args]]          op in add mul sub div pow neg floordiv mod max min floor ceil
  ["f", fname, [args]]       uninterpreted / opaque function
  ["b", "sum"|"prod", it, body, lo, hi]
"""
from fractions import Fraction

OPS = {
    "add": "OAdd", "mul": "OMul", "sub": "OSub", "div": "ODiv", "pow": "OPow", "neg": "ONeg",
    "floordiv": "OFloorDiv", "mod": "OMod", "max": "OMax", "min": "OMin", "floor": "OFloor", "ceil": "OCeil",
}


def num(x):
    fr = Fraction(x)
    return ["n", fr.numerator, fr.denominator]


def sym(name):
    return ["s", name]


def op(o, *args):
    return ["o", o, list(args)]


def fun(f, *args):
    return ["f", f, list(args)]


def coq_string(s: str) -> str:
    return '"' + s.replace('"', '""') + '"'


def coq_q(n, d=1) -> str:
    return f"(({n})#{d})" if n < 0 else f"({n}#{d})"


def coq_list(items) -> str:
    return "[" + "; ".join(items) + "]"


def coq_opt(x) -> str:
    return "None" if x is None else f"(Some {x})"


def to_coq(e) -> str:
    t = e[0]
    if t == "n":
        if abs(e[1]).bit_length() > 12000 or abs(e[2]).bit_length() > 12000:
            # a number of several thousand digits (Coq's reader overflows its stack on an 80 000-digit numeral, and the model
            # leaves powers of that size undecided anyway): written as a term WITHOUT a value, so every comparison with it
            # comes out undecided (code 2), never equal and never different
            return "(EOp ODiv [ENum (1#1); ENum (0#1)])"
        return f"(ENum {coq_q(e[1], e[2])})"
    if t == "s":
        return f"(ESym {coq_string(e[1])})"
    if t == "o":
        return f"(EOp {OPS[e[1]]} {coq_list([to_coq(a) for a in e[2]])})"
    if t == "f":
        return f"(EOp (OFun {coq_string(e[1])}) {coq_list([to_coq(a) for a in e[2]])})"
    if t == "b":
        kind = "BSum" if e[1] == "sum" else "BProd"
        return f"(EBig {kind} {coq_string(e[2])} {to_coq(e[3])} {to_coq(e[4])} {to_coq(e[5])})"
    raise ValueError(f"bad expr {e!r}")


def to_str(e) -> str:
    """A string bartiq's parser reads as this expression (fully parenthesised)."""
    t = e[0]
    if t == "n":
        n, d = e[1], e[2]
        if len(e) > 3 and e[3] == "float":
            x = repr(n / d)                  # written as a float literal (0.5, 1.5): a Python float on the other side
            return x if n >= 0 else f"({x})"
        if d == 1:
            return str(n) if n >= 0 else f"(-{-n})"
        return f"({n}/{d})" if n >= 0 else f"(-{-n}/{d})"
    if t == "s":
        return e[1]
    if t == "o":
        o, a = e[1], e[2]
        s = [to_str(x) for x in a]
        if o == "add":
            return "(" + " + ".join(s) + ")"
        if o == "mul":
            return "(" + " * ".join(s) + ")"
        if o == "sub":
            return f"({s[0]} - {s[1]})"
        if o == "div":
            return f"({s[0]} / {s[1]})"
        if o == "pow":
            return f"({s[0]} ** {s[1]})"
        if o == "neg":
            return f"(-{s[0]})"
        if o == "floordiv":
            return f"({s[0]} // {s[1]})"
        if o == "mod":
            return f"({s[0]} % {s[1]})"
        if o == "max":
            return "max(" + ", ".join(s) + ")"
        if o == "min":
            return "min(" + ", ".join(s) + ")"
        if o == "floor":
            return f"floor({s[0]})"
        if o == "ceil":
            return f"ceiling({s[0]})"
    if t == "f":
        return e[1] + "(" + ", ".join(to_str(x) for x in e[2]) + ")"
    if t == "b":
        name = "sum_over" if e[1] == "sum" else "prod_over"
        return f"{name}({to_str(e[3])}, {e[2]}, {to_str(e[4])}, {to_str(e[5])})"
    raise ValueError(f"bad expr {e!r}")


def fv(e, acc=None):
    acc = set() if acc is None else acc
    t = e[0]
    if t == "s":
        acc.add(e[1])
    elif t in ("o", "f"):
        for a in e[2]:
            fv(a, acc)
    elif t == "b":
        inner = fv(e[3], set())
        inner.discard(e[2])
        acc |= inner
        fv(e[4], acc)
        fv(e[5], acc)
    return acc


def float_leaves(e, acc=None):
    """values of the leaves that were sympy Floats (marked by from_sympy)"""
    acc = [] if acc is None else acc
    t = e[0]
    if t == "n":
        if len(e) > 3:
            acc.append((e[1], e[2]))
    elif t in ("o", "f"):
        for a in e[2]:
            float_leaves(a, acc)
    elif t == "b":
        for a in (e[3], e[4], e[5]):
            float_leaves(a, acc)
    return acc


def size(e):
    t = e[0]
    if t in ("n", "s"):
        return 1
    if t in ("o", "f"):
        return 1 + sum(size(a) for a in e[2])
    return 1 + size(e[3]) + size(e[4]) + size(e[5])


def from_sympy(x):
    """Walk a sympy object (or native number) into the JSON form.
    Returns (expr, inexact) where inexact says a Float was met."""
    import sympy
    from sympy.core.function import AppliedUndef

    inexact = [False]

    def go(v):
        if isinstance(v, bool):
            raise ValueError("bool")
        if isinstance(v, int):
            return ["n", v, 1]
        if isinstance(v, float):
            inexact[0] = True
            fr = Fraction(v)
            return ["n", fr.numerator, fr.denominator]
        if isinstance(v, sympy.Integer):
            return ["n", int(v), 1]
        if isinstance(v, sympy.Rational):
            return ["n", int(v.p), int(v.q)]
        if isinstance(v, sympy.Float):
            inexact[0] = True
            if v._prec < 53:
                # a reduced-precision Float (e.g. what round(1/8, 1) returns) denotes the decimal it prints as at its own
                # precision; float() of its binary mantissa (51/512 for "0.1") is an artefact of the representation
                fr = Fraction(str(v))
            else:
                fr = Fraction(float(v))
            return ["n", fr.numerator, fr.denominator, "float"]
        if isinstance(v, sympy.Symbol):
            return ["s", v.name]
        if isinstance(v, sympy.Add):
            return ["o", "add", [go(a) for a in v.args]]
        if isinstance(v, sympy.Mul):
            return ["o", "mul", [go(a) for a in v.args]]
        if isinstance(v, sympy.Pow):
            return ["o", "pow", [go(v.base), go(v.exp)]]
        if isinstance(v, sympy.floor):
            return ["o", "floor", [go(v.args[0])]]
        if isinstance(v, sympy.ceiling):
            return ["o", "ceil", [go(v.args[0])]]
        if isinstance(v, sympy.Max):
            return ["o", "max", [go(a) for a in v.args]]
        if isinstance(v, sympy.Min):
            return ["o", "min", [go(a) for a in v.args]]
        if isinstance(v, sympy.Mod):
            return ["o", "mod", [go(v.args[0]), go(v.args[1])]]
        if isinstance(v, (sympy.Sum, sympy.Product)):
            if any(len(l) != 3 for l in v.limits):
                return ["f", "<open-limit>", []]
            # several limits (sympy merges a sum of a sum): the FIRST limit is the innermost one
            kind = "sum" if isinstance(v, sympy.Sum) else "prod"
            e = go(v.function)
            for it, lo, hi in v.limits:
                e = ["b", kind, it.name, e, go(lo), go(hi)]
            return e
        if isinstance(v, AppliedUndef):
            return ["f", type(v).__name__, [go(a) for a in v.args]]
        if isinstance(v, sympy.Heaviside) and len(v.args) == 2 and v.args[1] == sympy.Rational(1, 2):
            # sympy stores the default value at 0 as a second argument that neither the user wrote nor the printer shows
            return ["f", "Heaviside", [go(v.args[0])]]
        if isinstance(v, sympy.Function):
            return ["f", type(v).__name__, [go(a) for a in v.args]]
        if isinstance(v, sympy.Basic) and not v.args:
            return ["f", "<const>" + str(v), []]
        if isinstance(v, sympy.Basic):
            return ["f", "<" + type(v).__name__ + ">", [go(a) for a in v.args if isinstance(a, sympy.Basic)]]
        raise ValueError(f"cannot walk {type(v).__name__}: {v!r}")

    return go(x), inexact[0]
