"""Runs the real bartiq (PYTHONPATH=/repo/src) on a list of cases; one JSON result per case.
usage: impl_worker.py <stream> <in.json> <out.json> <per-case-timeout>"""
import json
import signal
import sys
import warnings

warnings.simplefilter("ignore")
if hasattr(sys, "set_int_max_str_digits"):
    sys.set_int_max_str_digits(0)      # integers are exchanged exactly, however long


class CaseTimeout(Exception):
    pass


def _alarm(signum, frame):
    raise CaseTimeout()


def main():
    stream, fin, fout, tmo = sys.argv[1], sys.argv[2], sys.argv[3], int(sys.argv[4])
    import impl_fns

    fn = getattr(impl_fns, "impl_" + stream.replace("-", "_"))
    cases = json.load(open(fin))
    out = []
    signal.signal(signal.SIGALRM, _alarm)
    for c in cases:
        signal.alarm(tmo)
        try:
            r = fn(c)
            r.setdefault("ok", True)
        except CaseTimeout:
            r = {"ok": False, "exc": "Timeout", "msg": f"> {tmo}s"}
        except BaseException as e:  # noqa: BLE001 - the exception class is an observable
            r = {"ok": False, "exc": type(e).__name__, "msg": str(e)[:300], "module": type(e).__module__}
        finally:
            signal.alarm(0)
        out.append(r)
    # one result that cannot be written (an object json does not know) must not take the others with it
    texts = []
    for r in out:
        try:
            texts.append(json.dumps(r))
        except BaseException as e:  # noqa: BLE001
            texts.append(json.dumps({"ok": False, "exc": "UnserialisableResult", "msg": f"{type(e).__name__}: {str(e)[:200]}"}))
    with open(fout + ".tmp", "w") as f:
        f.write("[" + ",".join(texts) + "]")
    import os
    os.replace(fout + ".tmp", fout)


if __name__ == "__main__":
    main()
