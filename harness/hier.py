"""Routine hierarchies: generator, conversion to QREF dicts (for bartiq) and to Gallina terms (for the model)."""
from fractions import Fraction

import exprs as E

PARAM_POOL = ["N", "M", "x", "y"]
LOCAL_POOL = ["L", "w"]
SIZE_POOL = ["n", "m", "s", "N"]
# ("in_0z": a child whose connections sort, as strings, BETWEEN those of the routine's own ports in_0 and in_1 -- QREF
# keeps connections sorted by source, so the connections of one source are not always next to each other)
CHILD_NAMES = ["a", "b", "c", "d", "in_0z", "lambda_p"]
# (in name order, which is the order QREF keeps them in: G additive, P multiplicative, Q additive, ... -- resources of one type
# are not always next to each other)
RES_POOL = [("T", "additive"), ("Q", "additive"), ("P", "multiplicative"), ("info", "other"), ("anc", "qubits"), ("G", "additive"),
            ("lambdas", "additive")]      # a name that merely BEGINS like a reserved word of the expression language
FUNCS = ["f", "g"]
COUNT_NAMES = ("K", "R")


# ------------------------------------------------------------------ expressions

POW_EXPONENTS = ("e1", "e2")     # leaf parameters used only as exponents of a power of a power; never linked, so their
                                 # values stay small and no tower of powers can build up through links or assignments


def gen_expr(rng, syms, depth, allow_div=True, exps=None):
    if depth <= 0 or rng.random() < 0.25 or not syms:
        if syms and rng.random() < 0.7:
            return E.sym(rng.choice(syms))
        return E.num(rng.choice([1, 2, 3, 4, 5, 7]))
    o = rng.choice(["add", "add", "mul", "mul", "sub", "f", "div", "pow", "ceil", "max"])
    a = gen_expr(rng, syms, depth - 1, exps=exps)
    b = gen_expr(rng, syms, depth - 1, exps=exps)
    if o == "f":
        r = rng.random()    # f is unary, g binary, everywhere; nested calls of the same function are common
        if r < 0.5:
            return E.fun("f", a)
        if r < 0.7:
            return E.fun("f", E.fun("f", a))
        if r < 0.9:
            return E.fun("g", a, b)
        return E.fun("g", E.fun("g", a, b), a)
    if o == "div":
        return E.op("div", a, E.num(rng.choice([2, 3, 4]))) if allow_div else E.op("add", a, b)
    if o == "pow":
        if exps and rng.random() < 0.6:
            # a power whose base is a power with a symbolic exponent (sympy does not flatten it): (2 ^ k) ^ d is not 2 ^ (k ^ d)
            base = rng.choice([E.num(2), E.num(3), E.sym(rng.choice(syms))])
            return E.op("pow", E.op("pow", base, E.sym(rng.choice(exps))), E.sym(rng.choice(exps)))
        return E.op("pow", a, E.num(rng.choice([2, 3])))
    if o == "ceil":
        return E.op("ceil", E.op("div", a, E.num(rng.choice([2, 3]))))
    if o == "max":
        return E.op("max", a, b)
    return E.op(o, a, b)


def gen_sequence(rng, syms):
    kind = rng.choice(["constant", "constant", "arithmetic", "geometric", "closed_form", "custom"])
    p = lambda: (E.sym(rng.choice(syms)) if syms and rng.random() < 0.5 else E.num(rng.choice([2, 3, 1, Fraction(1, 2)])))  # noqa: E731
    if kind == "constant":
        if syms and rng.random() < 0.25:
            # a compound multiplier: neither a number nor a bare parameter
            m = E.sym(rng.choice(syms))
            return {"kind": kind, "multiplier": rng.choice([E.op("mul", E.num(2), m), E.op("add", m, E.num(1))])}
        if rng.random() < 0.15:
            return {"kind": kind, "multiplier": E.num(rng.choice([Fraction(5, 2), Fraction(1, 2), Fraction(3, 2), Fraction(9, 4)]))}   # (natively: the float 2.5)
        return {"kind": kind, "multiplier": E.sym(rng.choice(syms)) if syms and rng.random() < 0.4 else E.num(rng.randint(1, 3))}
    if kind == "arithmetic":
        if rng.random() < 0.12:
            return {"kind": kind, "initial_term": p(), "difference": E.num(0)}     # a constant progression written as an arithmetic one
        return {"kind": kind, "initial_term": p(), "difference": p()}
    if kind == "geometric":
        # ratio 1 is outside C07 (the closed form is 0/0 = nan, not a finite value); a symbolic ratio could be linked
        # to an expression that folds to 1, so hierarchies use literal ratios (symbolic ratios: stream rep-direct)
        return {"kind": kind, "ratio": E.num(rng.choice([2, 3, Fraction(1, 2), Fraction(3, 2)]))}
    if kind == "closed_form":
        k = rng.choice(["k", "n_terms", "k"])     # the num_terms symbol need not be the usual one either
        if syms and rng.random() < 0.5:
            k = rng.choice(syms)                  # ... and may bear the name of a parameter of the routine (count: N, sum: N*(N+1)/2)
        body = rng.choice([
            E.op("div", E.op("mul", E.sym(k), E.op("add", E.sym(k), E.num(1))), E.num(2)),
            E.op("mul", E.sym(k), p()),
            E.op("add", E.op("pow", E.sym(k), E.num(2)), p()),
        ])
        return {"kind": kind, "sum": body, "prod": None, "num_terms_symbol": k}
    it = rng.choice(["i", "i", "j", "k", "it_1"])     # not always the schema's default name
    term = rng.choice([
        E.op("add", E.op("mul", p(), E.sym(it)), E.num(1)),
        E.op("pow", E.num(2), E.sym(it)),
        E.op("mul", E.sym(it), E.sym(it)),
        p(),
        E.fun("f", E.sym(it)),                                  # an unresolved function of the iterator: with a numeric count and
        E.op("add", E.fun("f", E.sym(it)), E.num(1)),           # a numeric child cost the compiled sum has no free symbol at all
    ])
    return {"kind": kind, "term_expression": term, "iterator_symbol": it}


# ------------------------------------------------------------------ hierarchy generator (mostly valid)

def gen_size_expr(rng, syms):
    """A size that is a non-negative integer whenever the symbols are (C16)."""
    if not syms or rng.random() < 0.2:
        return E.num(rng.randint(0, 4))
    a = E.sym(rng.choice(syms))
    r = rng.random()
    if r < 0.4:
        return a
    if r < 0.7:
        return E.op("add", a, E.num(rng.randint(1, 3)))
    if r < 0.85:
        return E.op("mul", E.num(2), a)
    return E.op("add", a, E.sym(rng.choice(syms)))


class Gen:
    def __init__(self, rng, max_depth=3, max_children=3, p_rep=0.2, p_through=0.1, allow_other=True, p_shuffle=0.5, qubits=False, root_sized=False, mixed_types=0.0):
        self.rng = rng
        self.max_depth = max_depth
        self.max_children = max_children
        self.p_rep = p_rep
        self.p_through = p_through
        self.allow_other = allow_other
        self.p_shuffle = p_shuffle
        self.qubits = qubits     # C16: non-negative sizes, local_ancillae resources
        self.root_sized = root_sized   # C13: every input port of the root declares a size (see finding F13)
        self.mixed_types = mixed_types  # C09: a resource name additive in one leaf and multiplicative in a sibling
        self.nodes = 0

    def subset(self, pool, lo, hi):
        k = self.rng.randint(lo, min(hi, len(pool)))
        return self.rng.sample(pool, k)

    def leaf(self, name, n_in, under_rep):
        rng = self.rng
        self.nodes += 1
        params = self.subset(PARAM_POOL, 0, 2)
        ports, size_syms = [], []
        avail_sizes = [s for s in SIZE_POOL if s not in params]
        for k in range(n_in):
            r = rng.random()
            if r < 0.2 or not avail_sizes:
                size = None
            else:
                s = rng.choice(avail_sizes)
                avail_sizes.remove(s)
                size_syms.append(s)
                size = E.sym(s)
            d = "input"
            ports.append({"name": f"in_{k}", "direction": d, "size": size})
        scope = params + size_syms
        n_through = 0
        if n_in and rng.random() < self.p_through and ports[0]["size"] is not None:
            ports[0] = {"name": "thru_0", "direction": "through", "size": ports[0]["size"]}
            n_through = 1
        locals_ = []
        for ln in self.subset(LOCAL_POOL, 0, 2) if scope else []:
            if ln in scope:
                continue
            locals_.append([ln, gen_size_expr(rng, scope) if self.qubits else gen_expr(rng, scope + [l[0] for l in locals_], 2)])
        scope_l = scope + [l[0] for l in locals_]
        if len(locals_) >= 2 and rng.random() < 0.5:
            locals_.reverse()      # listed against their dependency order (w = ... L ..., then L = ... n ...)
        if locals_ and not self.qubits and rng.random() < 0.12:
            # an input port sized by a bare symbol that is ALSO the name of a declared local variable: the port binds the
            # name (the incoming size), the declared definition is superseded
            unsized = [q for q in ports if q["size"] is None and q["direction"] == "input"]
            if unsized:
                rng.choice(unsized)["size"] = E.sym(rng.choice(locals_)[0])
        n_out = rng.randint(0, 2)
        for k in range(n_out):
            if self.qubits and size_syms and rng.random() < 0.3:
                # a routine that allocates or releases dq qubits: an output of size n + dq, where the parameter dq may be
                # negative while every port size stays non-negative (C16 asks for non-negative SIZES only)
                if "dq" not in params:
                    params.append("dq")
                size = E.op(rng.choice(["add", "add", "sub"]), E.sym(rng.choice(size_syms)), E.sym("dq"))
            elif self.qubits and rng.random() < 0.1:
                size = E.num(0)          # a routine that hands on an EMPTY register (a measurement, a discard)
            elif self.qubits:
                size = gen_size_expr(rng, scope_l)
            elif rng.random() < 0.08:
                size = E.num(0)          # an empty register: a legitimate size (and, handed over natively, the integer 0)
            else:
                size = gen_expr(rng, scope_l, 1) if scope_l else E.num(rng.randint(1, 4))
            ports.append({"name": f"out_{k}", "direction": "output", "size": size})
        # under a repetition mostly additive resources (products under arithmetic / closed-form sequences involve gamma or are
        # refused), but now and then a multiplicative one too
        pool = [r for r in RES_POOL if not under_rep or r[1] == "additive" or (r[1] == "multiplicative" and rng.random() < 0.3)]
        if not self.allow_other:
            pool = [r for r in pool if r[1] in ("additive", "multiplicative")]
        exps = None
        if not self.qubits and rng.random() < 0.25:
            exps = list(POW_EXPONENTS[: rng.randint(1, 2)])
            params.extend(e for e in exps if e not in params)
        resources = [{"name": n, "type": t, "value": gen_expr(rng, scope_l, 2, exps=exps)} for n, t in self.subset(pool, 1, 3)]
        if self.mixed_types and not under_rep:
            for x in resources:
                if x["type"] in ("additive", "multiplicative") and rng.random() < self.mixed_types:
                    x["type"] = "multiplicative" if x["type"] == "additive" else "additive"
        if self.qubits and rng.random() < 0.5:
            resources.append({"name": "local_ancillae", "type": "qubits", "value": gen_size_expr(rng, scope_l)})
        if self.qubits and rng.random() < 0.12:
            # a hand-written estimate under the very name of the derived resource: the derivation must replace it
            resources.append({"name": "qubit_highwater", "type": "qubits", "value": gen_size_expr(rng, scope)})
        if params and rng.random() < 0.15:
            # a resource that bears the name of one of the routine's own parameters (`depth` the parameter, `depth` the cost):
            # an unlinked parameter is promoted to `child.depth`, the very text that also names the child's resource
            resources.append({"name": params[0], "type": "additive", "value": gen_expr(rng, scope_l, 2)})
        return {"name": name, "type": rng.choice([None, "leaf", "leaf", ""]), "input_params": params, "local_variables": locals_,
                "linked_params": [], "ports": ports, "resources": resources, "connections": [], "repetition": None,
                "children": []}, n_out + n_through

    def build(self, name, depth, n_in, under_rep=False, is_root=False):
        rng = self.rng
        if depth <= 0 or (not is_root and rng.random() < 0.35):
            return self.leaf(name, n_in, under_rep)
        self.nodes += 1
        is_rep = (not is_root) and rng.random() < self.p_rep
        params = self.subset(PARAM_POOL, 1 if is_root else 0, 3)
        ports, size_syms = [], []
        avail_sizes = [s for s in SIZE_POOL if s not in params]
        for k in range(n_in):
            if is_root:
                # root sizes: one of its params, a fresh symbol, a constant, or unsized
                r = rng.random()
                if r < 0.5 and params:
                    size = E.sym(rng.choice(params))
                elif r < 0.7:
                    size = E.num(rng.randint(0, 6))
                elif r < 0.85 and avail_sizes:
                    s = rng.choice(avail_sizes)
                    size = E.sym(s)
                    size_syms.append(s)
                else:
                    size = E.num(rng.randint(1, 6)) if self.root_sized else None
            else:
                if rng.random() < 0.4 or not avail_sizes:
                    size = None
                else:
                    s = rng.choice(avail_sizes)
                    avail_sizes.remove(s)
                    size_syms.append(s)
                    size = E.sym(s)
            ports.append({"name": f"in_{k}", "direction": "input", "size": size})
        scope = params + [s for s in size_syms if s not in params]
        # a through port on a routine WITH children: the wire enters, bypasses every child and leaves
        # (QREF forbids wiring such a port inside the routine)
        n_through = 0
        if n_in and not is_rep and rng.random() < 0.7 * self.p_through:
            k = rng.randrange(n_in)
            if ports[k]["size"] is not None or not is_root:
                ports[k] = {"name": f"thru_{k}", "direction": "through", "size": ports[k]["size"]}
                n_through = 1
        locals_ = []
        if scope and rng.random() < 0.4:
            ln = rng.choice([l for l in LOCAL_POOL if l not in scope] or ["L2"])
            locals_.append([ln, gen_size_expr(rng, scope) if self.qubits else gen_expr(rng, scope, 2)])
        scope_l = scope + [l[0] for l in locals_]
        if is_root and ports and rng.random() < 0.3:
            # a root port whose declared size is read in the root's own scope: a local variable, or a compound expression
            # (never a port whose size symbol is itself in scope use: that symbol would lose its declaration)
            free = [p for p in ports if p["size"] is None or p["size"][0] == "n" or (p["size"][0] == "s" and p["size"][1] in params)]
            if free:
                p = rng.choice(free)
                p["size"] = E.sym(locals_[0][0]) if locals_ and rng.random() < 0.6 else (gen_size_expr(rng, scope_l) if scope_l else p["size"])
        # children and wiring
        n_children = 1 if is_rep else rng.randint(1, self.max_children)
        names = rng.sample(CHILD_NAMES, n_children)
        open_wires = [p["name"] for p in ports if p["direction"] == "input"]
        children, connections = [], []
        for cn in names:
            k_in = len(open_wires) if is_rep else rng.randint(0, min(3, len(open_wires)))
            child, c_out = self.build(cn, depth - 1, k_in, under_rep or is_rep)
            srcs = rng.sample(open_wires, k_in)
            in_ports = [p for p in child["ports"] if p["direction"] in ("input", "through")]
            for s, p in zip(srcs, in_ports):
                connections.append([s, f"{cn}.{p['name']}"])
                open_wires.remove(s)
            for p in child["ports"]:
                if p["direction"] in ("output", "through"):
                    open_wires.append(f"{cn}.{p['name']}")
            children.append(child)
            # a twin: the same definition under another name and another type (nothing else differs)
            spare = [x for x in CHILD_NAMES if x not in names and x not in [c["name"] for c in children]]
            if k_in == 0 and not is_rep and spare and rng.random() < 0.15:
                import copy
                twin = copy.deepcopy(child)
                twin["name"] = spare[0]
                twin["type"] = "twin" if child["type"] != "twin" else None
                for p in twin["ports"]:
                    if p["direction"] in ("output", "through"):
                        open_wires.append(f"{twin['name']}.{p['name']}")
                children.append(twin)
                self.nodes += count_nodes(twin)
        for k, w in enumerate(open_wires):
            ports.append({"name": f"out_{k}", "direction": "output", "size": None})
            connections.append([w, f"out_{k}"])
        n_out = len(open_wires)
        rng.shuffle(connections)
        # parameter links
        links = {}
        for ch in children:
            for p in ch["input_params"]:
                if p in POW_EXPONENTS:
                    continue
                if scope_l and rng.random() < 0.7:
                    links.setdefault(rng.choice(scope_l), []).append([ch["name"], p])
        # deep links: a grandchild parameter its parent does not link
        for ch in children:
            for g in ch["children"]:
                linked_in_ch = {(t[0], t[1]) for _, ts in ch["linked_params"] for t in ts}
                for p in g["input_params"]:
                    if (g["name"], p) not in linked_in_ch and p not in POW_EXPONENTS and scope_l and rng.random() < 0.3:
                        links.setdefault(rng.choice(scope_l), []).append([f"{ch['name']}.{g['name']}", p])
        linked_params = [[s, ts] for s, ts in links.items()]
        # the same source may be listed in two entries (N -> [a.x] and, separately, N -> [b.y]): their targets add up
        for e in list(linked_params):
            if len(e[1]) >= 2 and rng.random() < 0.25:
                k = rng.randint(1, len(e[1]) - 1)
                linked_params.append([e[0], e[1][k:]])
                e[1] = e[1][:k]
        rng.shuffle(linked_params)
        repetition = None
        resources = []
        if is_rep:
            cnt_sym = rng.choice(COUNT_NAMES)
            if rng.random() < 0.7:
                if cnt_sym not in params:
                    params = params + [cnt_sym]
                count = E.sym(cnt_sym)
            else:
                count = E.num(rng.randint(0, 5))
            repetition = {"count": count, "sequence": gen_sequence(rng, [p for p in params if p not in COUNT_NAMES])}
        else:
            # an explicit definition over child resources, sometimes
            child_res = [(ch["name"], r["name"], r["type"]) for ch in children for r in ch["resources"]]
            if child_res and rng.random() < 0.35:
                cn, rn, rt = rng.choice(child_res)
                # (C16: ancillae and sizes stay non-negative, so the extra term is a size expression)
                val = E.op("add", E.op("mul", E.num(rng.randint(2, 3)), E.sym(f"{cn}.{rn}")),
                           (gen_size_expr(rng, scope_l) if self.qubits else gen_expr(rng, scope_l, 1)) if scope_l else E.num(1))
                # the routine's own definition may carry another type than the child's resource of the same name
                resources.append({"name": rn, "type": rt if rng.random() < 0.6 else rng.choice(["other", "additive", "qubits"]), "value": val})
            if scope_l and rng.random() < 0.3 and not under_rep and not any(x["name"] == "own" for x in resources):
                resources.append({"name": "own", "type": "additive", "value": gen_expr(rng, scope_l, 2)})
        if self.qubits and rng.random() < 0.4 and not is_rep:
            resources.append({"name": "local_ancillae", "type": "qubits", "value": gen_size_expr(rng, scope_l)})
        if self.qubits and rng.random() < 0.12 and not is_rep:
            resources.append({"name": "qubit_highwater", "type": "qubits", "value": gen_size_expr(rng, scope)})
        node = {"name": name, "type": rng.choice([None, "comp", "comp", ""]), "input_params": params, "local_variables": locals_,
                "linked_params": linked_params, "ports": ports, "resources": resources, "connections": connections,
                "repetition": repetition, "children": children}
        if rng.random() < self.p_shuffle:
            rng.shuffle(node["children"])
        return node, n_out + n_through


def constrain_sizes(root, rng, p=0.3):
    """Give some subroutines input ports whose declared sizes yield CONSTRAINTS when the routine is compiled: two ports declared
    with the same size symbol, a port of constant size, a port whose size is a compound expression of another port's size
    symbol or of a parameter.  Whether the constraint comes out satisfied, inconclusive or violated depends on what arrives."""
    import json
    root_consts = [q["size"][1] for q in root["ports"] if q["size"] is not None and q["size"][0] == "n" and q["size"][2] == 1]
    for nd, path in list(_nodes(root)):
        if not path or rng.random() >= p:
            continue
        bound = set(nd["input_params"]) | {l[0] for l in nd["local_variables"]}
        ins = [q for q in nd["ports"] if q["direction"] == "input"]
        sized = [q for q in ins if q["size"] is not None and q["size"][0] == "s" and q["size"][1] not in bound]

        def unused(q):
            if q["size"] is None:
                return True
            rest = {k: v for k, v in nd.items() if k not in ("children", "ports")}
            text = json.dumps(rest) + json.dumps([x for x in nd["ports"] if x is not q])
            return json.dumps(q["size"][1]) not in text     # the bare name: link sources and placeholders are plain strings
        def feeder(q):
            """The root's own port wired straight into q, when its declared size may be rewritten freely."""
            if len(path) != 1:
                return None
            for s_, t_ in root["connections"]:
                if t_ == f"{nd['name']}.{q['name']}" and "." not in s_:
                    rp = [x for x in root["ports"] if x["name"] == s_ and x["direction"] == "input"]
                    if rp and (rp[0]["size"] is None or rp[0]["size"][0] == "n" or (rp[0]["size"][0] == "s" and rp[0]["size"][1] in root["input_params"])):
                        return rp[0]
            return None
        match = rng.random() < 0.7      # arrange for the constraint to be met by what the root feeds in
        kind = rng.choice(["dup", "const", "compound"])
        if kind == "dup" and len(sized) >= 2:
            pa, pb = rng.sample(sized, 2)
            if pa["size"][1] != pb["size"][1]:
                fa, fb = feeder(pa), feeder(pb)
                nd.update(rename_node_scope(nd, {pb["size"][1]: pa["size"][1]}))
                if match and fa is not None and fb is not None and fa["size"] is not None:
                    fb["size"] = fa["size"]
            continue
        free = [q for q in ins if (q["size"] is None or q in sized) and unused(q)]
        if not free:
            continue
        q = rng.choice(free)
        if kind == "compound":
            bases = [x["size"][1] for x in sized if x is not q] + list(nd["input_params"])
            bases = [b for b in bases if b not in POW_EXPONENTS]
            if bases:
                b = rng.choice(bases)
                a = E.sym(b)
                form = rng.choice([lambda x: E.op("mul", E.num(2), x), lambda x: E.op("add", x, E.num(1)), lambda x: E.op("mul", x, x)])
                fq = feeder(q)
                q["size"] = form(a)
                pa = [x for x in sized if x is not q and x["size"][1] == b]
                fa = feeder(pa[0]) if pa else None
                if match and fq is not None and fa is not None and fa["size"] is not None:
                    fq["size"] = form(fa["size"])
                continue
        fq = feeder(q)
        q["size"] = E.num(rng.choice(root_consts) if root_consts and rng.random() < 0.7 else rng.randint(0, 6))
        if match and fq is not None:
            fq["size"] = q["size"]


def use_port_placeholders(root, rng, p=0.12):
    """A leaf whose input port declares no size may still speak of that size, as #port: an output as wide as the input
    (`#in_0`), the sum of two inputs (`#in_0 + #in_1`), one more (`#in_0 + 1`), a cost proportional to it."""
    for nd, path in list(_nodes(root)):
        if not path or nd["children"] or rng.random() >= p:
            continue
        unsized = [q for q in nd["ports"] if q["direction"] == "input" and q["size"] is None]
        outs = [q for q in nd["ports"] if q["direction"] == "output"]
        if not unsized:
            continue
        a = E.sym("#" + rng.choice(unsized)["name"])
        b = E.sym("#" + rng.choice(unsized)["name"])
        if outs:
            rng.choice(outs)["size"] = rng.choice([a, a, E.op("add", a, b), E.op("add", a, E.num(1))])
        if rng.random() < 0.5 and nd["resources"]:
            x = rng.choice(nd["resources"])
            if x["type"] in ("additive", "other"):
                x["value"] = E.op("add", x["value"], E.op("mul", E.num(2), b))


def reserved_port_names(root, rng, p=0.1):
    """A register called `in` (or `lambda`): a port name like any other, although a reserved word of the expression language
    (its size variable is `#in`).  One input / through port of some routines is renamed, with every mention of it."""
    parents = {}
    for nd, _ in _nodes(root):
        for c in nd["children"]:
            parents[id(c)] = nd
    for nd, path in list(_nodes(root)):
        cands = [q for q in nd["ports"] if q["direction"] in ("input", "through")]
        if not cands or rng.random() >= p or any(q["name"] in ("in", "lambda") for q in nd["ports"]):
            continue
        q = rng.choice(cands)
        old, new = q["name"], rng.choice(["in", "in", "lambda"])
        q["name"] = new
        nd["connections"] = [[new if a == old else a, new if b == old else b] for a, b in nd["connections"]]
        par = parents.get(id(nd))
        if par is not None:
            o, n_ = f"{nd['name']}.{old}", f"{nd['name']}.{new}"
            par["connections"] = [[n_ if a == o else a, n_ if b == o else b] for a, b in par["connections"]]
        pi = {"#" + old: "#" + new}
        nd["ports"] = [dict(x, size=None if x["size"] is None else rename_expr(x["size"], pi)) for x in nd["ports"]]
        nd["resources"] = [dict(x, value=rename_expr(x["value"], pi)) for x in nd["resources"]]
        nd["local_variables"] = [[k, rename_expr(v, pi)] for k, v in nd["local_variables"]]


def gen_hierarchy(rng, p_constrain=0.3, p_placeholder=0.12, p_strip=0.5, p_reserved=0.1, **kw):
    g = Gen(rng, **kw)
    root, _ = g.build("root", g.max_depth, rng.randint(0, 2), is_root=True)
    # a root WITHOUT parameter links of its own (a plain container) above a subroutine that links a parameter two or more
    # levels down: the deep link is decomposed all the same
    if any("." in t[0] for c in root["children"] for _, ts in c["linked_params"] for t in ts) and rng.random() < p_strip:
        root["linked_params"] = []
    if p_constrain:
        constrain_sizes(root, rng, p_constrain)
    if p_placeholder:
        use_port_placeholders(root, rng, p_placeholder)
    if p_reserved:
        reserved_port_names(root, rng, p_reserved)
    return root


def with_leaf_resource(r, dl):
    """The routine in which every leaf declares the resource dl = {name, type, of, a, b} with the value a * <its resource
    `of`> + b (b alone when the leaf has no such resource): what a leaf-only derived resource amounts to."""
    n = dict(r)
    if not r["children"]:
        base = [x["value"] for x in r["resources"] if x["name"] == dl["of"]]
        val = E.op("add", E.op("mul", E.num(dl["a"]), base[0]), E.num(dl["b"])) if base else E.num(dl["b"])
        n["resources"] = [x for x in r["resources"] if x["name"] != dl["name"]] + [{"name": dl["name"], "type": dl["type"], "value": val}]
    else:
        n["children"] = [with_leaf_resource(c, dl) for c in r["children"]]
    return n


def count_nodes(r):
    return 1 + sum(count_nodes(c) for c in r["children"])


def depth_of(r):
    return 1 + max([depth_of(c) for c in r["children"]] or [0])


def scope_names(r):
    return set(r["input_params"]) | {l[0] for l in r["local_variables"]} | {
        p["size"][1] for p in r["ports"] if p["size"] is not None and p["size"][0] == "s"}


def count_clashes(r, outer=frozenset()):
    mine = scope_names(r)
    n = len(mine & outer)
    for c in r["children"]:
        n += count_clashes(c, outer | mine)
    return n


# ------------------------------------------------------------------ to QREF (for the implementation)

def seq_to_qref(seq):
    k = seq["kind"]
    if k == "constant":
        return {"type": "constant", "multiplier": E.to_str(seq["multiplier"])}
    if k == "arithmetic":
        return {"type": "arithmetic", "initial_term": E.to_str(seq["initial_term"]), "difference": E.to_str(seq["difference"])}
    if k == "geometric":
        return {"type": "geometric", "ratio": E.to_str(seq["ratio"])}
    if k == "closed_form":
        d = {"type": "closed_form", "num_terms_symbol": seq["num_terms_symbol"]}
        if seq.get("sum") is not None:
            d["sum"] = E.to_str(seq["sum"])
        if seq.get("prod") is not None:
            d["prod"] = E.to_str(seq["prod"])
        return d
    return {"type": "custom", "term_expression": E.to_str(seq["term_expression"]), "iterator_symbol": seq["iterator_symbol"]}


def to_qref_program(r):
    d = {"name": r["name"], "input_params": list(r["input_params"]),
         "ports": [{"name": p["name"], "direction": p["direction"], "size": None if p["size"] is None else E.to_str(p["size"])} for p in r["ports"]],
         "resources": [{"name": x["name"], "type": x["type"], "value": E.to_str(x["value"])} for x in r["resources"]],
         "connections": [{"source": s, "target": t} for s, t in r["connections"]],
         "children": [to_qref_program(c) for c in r["children"]]}
    if r.get("type") is not None:
        d["type"] = r["type"]
    if r["local_variables"]:
        d["local_variables"] = {k: E.to_str(v) for k, v in r["local_variables"]}
    if r["linked_params"]:
        d["linked_params"] = [{"source": s, "targets": [f"{t[0]}.{t[1]}" for t in ts]} for s, ts in r["linked_params"]]
    if r.get("repetition") is not None:
        d["repetition"] = {"count": E.to_str(r["repetition"]["count"]), "sequence": seq_to_qref(r["repetition"]["sequence"])}
    return d


def to_qref(r):
    return {"version": "v1", "program": to_qref_program(r)}


# ------------------------------------------------------------------ to Gallina (for the model)

DIRS = {"input": "DIn", "output": "DOut", "through": "DThrough"}
RTYPES = {"additive": "RAdditive", "multiplicative": "RMultiplicative", "qubits": "RQubits", "other": "ROther"}
STATUS = {"inconclusive": "CInconclusive", "satisfied": "CSatisfied", "violated": "CViolated"}


def endpoint_to_coq(s):
    if "." in s:
        a, b = s.split(".", 1)
        return f"(Some {E.coq_string(a)}, {E.coq_string(b)})"
    return f"(None, {E.coq_string(s)})"


def seq_to_coq(seq):
    k = seq["kind"]
    if k == "constant":
        return f"(SConst {E.to_coq(seq['multiplier'])})"
    if k == "arithmetic":
        return f"(SArith {E.to_coq(seq['initial_term'])} {E.to_coq(seq['difference'])})"
    if k == "geometric":
        return f"(SGeom {E.to_coq(seq['ratio'])})"
    if k == "closed_form":
        su = None if seq.get("sum") is None else E.to_coq(seq["sum"])
        pr = None if seq.get("prod") is None else E.to_coq(seq["prod"])
        return f"(SClosed {E.coq_opt(su)} {E.coq_opt(pr)} {E.coq_string(seq['num_terms_symbol'])})"
    return f"(SCustom {E.to_coq(seq['term_expression'])} {E.coq_string(seq['iterator_symbol'])})"


def routine_to_coq(r):
    """Mirrors Routine.from_qref: an unsized port gets the symbol #name; link targets are split at the last dot."""
    ports = E.coq_list([
        f"(Build_port {E.coq_string(p['name'])} {DIRS[p['direction']]} "
        f"{E.to_coq(p['size']) if p['size'] is not None else E.to_coq(E.sym('#' + p['name']))})" for p in r["ports"]])
    res = E.coq_list([f"(Build_resource {E.coq_string(x['name'])} {RTYPES[x['type']]} {E.to_coq(x['value'])})" for x in r["resources"]])
    locs = E.coq_list([f"({E.coq_string(k)}, {E.to_coq(v)})" for k, v in r["local_variables"]])
    links = E.coq_list([
        f"({E.coq_string(s)}, {E.coq_list([f'({E.coq_string(t[0])}, {E.coq_string(t[1])})' for t in ts])})" for s, ts in r["linked_params"]])
    conns = E.coq_list([f"({endpoint_to_coq(s)}, {endpoint_to_coq(t)})" for s, t in r["connections"]])
    rep = "None"
    if r.get("repetition") is not None:
        rep = f"(Some (Build_repetition {E.to_coq(r['repetition']['count'])} {seq_to_coq(r['repetition']['sequence'])}))"
    ty = "None" if r.get("type") is None else f"(Some {E.coq_string(r['type'])})"
    kids = E.coq_list([routine_to_coq(c) for c in r["children"]])
    ips = E.coq_list([E.coq_string(p) for p in r["input_params"]])
    cons = E.coq_list([
        f"(Build_constraint {E.to_coq(c['lhs'])} {E.to_coq(c['rhs'])} {STATUS[c.get('status', 'inconclusive')]})"
        for c in r.get("constraints", [])])
    return f"(Routine {E.coq_string(r['name'])} {ty} {ips} {locs} {links} {ports} {res} {conns} {rep} {cons} {kids})"


def dseq_to_coq(seq):
    k = seq["kind"]
    if k == "constant":
        return f"(DConst {E.to_coq(seq['multiplier'])})"
    if k == "arithmetic":
        return f"(DArith {E.to_coq(seq['initial_term'])} {E.to_coq(seq['difference'])})"
    if k == "geometric":
        return f"(DGeom {E.to_coq(seq['ratio'])})"
    if k == "closed_form":
        su = None if seq.get("sum") is None else E.to_coq(seq["sum"])
        pr = None if seq.get("prod") is None else E.to_coq(seq["prod"])
        return f"(DClosed {E.coq_opt(su)} {E.coq_opt(pr)} {E.to_coq(seq['num_terms_symbol'])})"
    return f"(DCustom {E.to_coq(seq['term_expression'])} {E.coq_string(seq['iterator_symbol'])})"


def ctree_to_coq(t):
    """A compiled routine as observed on the implementation (see impl_fns.walk_compiled)."""
    ports = E.coq_list([f"({E.coq_string(p['name'])}, ({DIRS[p['direction']]}, {E.to_coq(p['size'])}))" for p in t["ports"]])
    res = E.coq_list([f"({E.coq_string(x['name'])}, ({RTYPES[x['type']]}, {E.to_coq(x['value'])}))" for x in t["resources"]])
    conns = E.coq_list([f"({endpoint_to_coq(s)}, {endpoint_to_coq(tg)})" for s, tg in t["connections"]])
    rep = "None"
    if t.get("repetition") is not None:
        rep = f"(Some ({E.to_coq(t['repetition']['count'])}, {dseq_to_coq(t['repetition']['sequence'])}))"
    cons = E.coq_list([f"({E.to_coq(c['lhs'])}, {E.to_coq(c['rhs'])}, {STATUS[c['status']]})" for c in t["constraints"]])
    ty = "None" if t.get("type") is None else f"(Some {E.coq_string(t['type'])})"
    kids = E.coq_list([ctree_to_coq(c) for c in t["children"]])
    ips = E.coq_list([E.coq_string(p) for p in t["input_params"]])
    return f"(CT {E.coq_string(t['name'])} {ty} [] {ips} {ports} {res} {conns} {rep} {cons} {kids})"


def impl_to_coq(imp):
    if imp.get("ok"):
        return f"(IOk {ctree_to_coq(imp['tree'])})"
    exc = imp.get("exc", "?")
    cls = exc if exc in ("BartiqCompilationError", "BartiqPreprocessingError") else "internal"
    return f"(IErr {E.coq_string(cls)})"


def tree_input_params(t, acc=None):
    acc = set() if acc is None else acc
    acc.update(t["input_params"])
    for c in t["children"]:
        tree_input_params(c, acc)
    return acc


def make_points(rng, names, n=4):
    """Numeric points for the top-level inputs: counts are small naturals, sizes naturals, the rest rationals."""
    pts = []
    for _ in range(n):
        p = {}
        for nm in sorted(names):
            base = nm.rsplit(".", 1)[-1]
            if base in COUNT_NAMES:
                v = Fraction(rng.randint(0, 5))
            elif base in POW_EXPONENTS:
                v = Fraction(rng.randint(0, 4))
            elif base.startswith("#") or base in SIZE_POOL:
                v = Fraction(rng.randint(1, 9))
            else:
                v = Fraction(rng.choice([2, 3, 5, 7, 11, 4, 6]), rng.choice([1, 1, 2, 3]))
            p[nm] = [v.numerator, v.denominator]
        pts.append(p)
    return pts


def points_to_coq(points):
    return E.coq_list([E.coq_list([f"({E.coq_string(k)}, {E.coq_q(v[0], v[1])})" for k, v in sorted(p.items())]) for p in points])


# ------------------------------------------------------------------ renaming one scope (C03)

def rename_expr(e, pi, bound=frozenset()):
    t = e[0]
    if t == "n":
        return e
    if t == "s":
        return ["s", pi.get(e[1], e[1])] if e[1] not in bound else e
    if t in ("o", "f"):
        return [t, e[1], [rename_expr(a, pi, bound) for a in e[2]]]
    return ["b", e[1], e[2], rename_expr(e[3], pi, bound | {e[2]}), rename_expr(e[4], pi, bound), rename_expr(e[5], pi, bound)]


def bound_names(node):
    s = list(node["input_params"]) + [l[0] for l in node["local_variables"]]
    for p in node["ports"]:
        if p["direction"] != "output" and p["size"] is not None and p["size"][0] == "s" and not p["size"][1].startswith("#"):
            s.append(p["size"][1])
    out = []
    for x in s:
        if x not in out:
            out.append(x)
    return out


def rename_seq(seq, pi):
    k = seq["kind"]
    s = dict(seq)
    if k == "constant":
        s["multiplier"] = rename_expr(seq["multiplier"], pi)
    elif k == "arithmetic":
        s["initial_term"] = rename_expr(seq["initial_term"], pi)
        s["difference"] = rename_expr(seq["difference"], pi)
    elif k == "geometric":
        s["ratio"] = rename_expr(seq["ratio"], pi)
    elif k == "closed_form":
        nts = seq["num_terms_symbol"]
        if nts in pi:
            # the placeholder bears the name of a name of this scope (count: N, sum: N*(N+1)/2): it IS that name (the
            # compiler substitutes it like every other occurrence), so it is renamed with it
            s["num_terms_symbol"] = pi[nts]
            s["sum"] = None if seq.get("sum") is None else rename_expr(seq["sum"], pi)
            s["prod"] = None if seq.get("prod") is None else rename_expr(seq["prod"], pi)
        else:
            b = frozenset([nts])
            s["sum"] = None if seq.get("sum") is None else rename_expr(seq["sum"], pi, b)
            s["prod"] = None if seq.get("prod") is None else rename_expr(seq["prod"], pi, b)
    else:
        s["term_expression"] = rename_expr(seq["term_expression"], pi, frozenset([seq["iterator_symbol"]]))
    return s


def rename_node_scope(node, pi):
    n = dict(node)
    n["input_params"] = [pi.get(x, x) for x in node["input_params"]]
    n["local_variables"] = [[pi.get(k, k), rename_expr(v, pi)] for k, v in node["local_variables"]]
    n["ports"] = [dict(p, size=None if p["size"] is None else rename_expr(p["size"], pi)) for p in node["ports"]]
    n["resources"] = [dict(r, value=rename_expr(r["value"], pi)) for r in node["resources"]]
    n["linked_params"] = [[pi.get(s, s), ts] for s, ts in node["linked_params"]]
    if node.get("repetition") is not None:
        n["repetition"] = {"count": rename_expr(node["repetition"]["count"], pi), "sequence": rename_seq(node["repetition"]["sequence"], pi)}
    return n


def rename_at(root, path, pi):
    """Rename the scope of the node reached by `path` (list of child names); fix the links that target its parameters."""
    def go(node, rest, trail):
        if not rest:
            return rename_node_scope(node, pi)
        n = dict(node)
        rel = ".".join(rest)
        n["linked_params"] = [[s, [[t[0], pi.get(t[1], t[1])] if t[0] == rel else t for t in ts]] for s, ts in node["linked_params"]]
        n["children"] = [go(c, rest[1:], trail + [c["name"]]) if c["name"] == rest[0] else c for c in node["children"]]
        return n
    return go(root, list(path), [])


def all_paths(r, prefix=()):
    yield list(prefix)
    for c in r["children"]:
        yield from all_paths(c, prefix + (c["name"],))


def node_at(r, path):
    for p in path:
        r = [c for c in r["children"] if c["name"] == p][0]
    return r


# ------------------------------------------------------------------ listing order (C09)

def permute_lists(r, rng, child_perm=None, reverse=False):
    """The same routine with every list-valued field listed in another order (recursively); `reverse`: exactly reversed
    (whatever came first now comes last: the partner that differs from the original in EVERY pairwise order)."""
    n = dict(r)
    kids = [permute_lists(c, rng, reverse=reverse) for c in r["children"]]
    if child_perm is not None:
        kids = [kids[i] for i in child_perm]
    elif reverse:
        kids.reverse()
    else:
        rng.shuffle(kids)
    n["children"] = kids
    for f in ("ports", "resources", "connections", "input_params", "local_variables"):
        l = list(r[f])
        if reverse:
            l.reverse()
        else:
            rng.shuffle(l)
        n[f] = l
    links = [[s, (list(reversed(ts)) if reverse else rng.sample(ts, len(ts)))] for s, ts in r["linked_params"]]
    if reverse:
        links.reverse()
    else:
        rng.shuffle(links)
    n["linked_params"] = links
    return n


# ------------------------------------------------------------------ single faults (C17)

def _nodes(r, path=()):
    yield r, path
    for c in r["children"]:
        yield from _nodes(c, path + (c["name"],))


FAULT_KINDS = ["drop-connection", "duplicate-target", "duplicate-source", "duplicate-connection", "cycle", "self-loop", "rep-two-children", "rep-no-child", "rep-own-resources"]


def inject_fault(rng, r, kind=None):
    """Returns (faulted copy, description) or None if no fault of the drawn kind fits this hierarchy."""
    import copy

    r = copy.deepcopy(r)
    kind = kind or rng.choice(FAULT_KINDS)
    nodes = [n for n, _ in _nodes(r)]
    if kind == "self-loop":
        # a child's own output wired into its own through port (a cycle of length 1 that qref's topology check
        # does not see); the two displaced ends are wired to each other so every port stays connected once
        best = []
        for n in nodes:
            for ch in n["children"]:
                thru = [p["name"] for p in ch["ports"] if p["direction"] == "through"]
                outs = [p["name"] for p in ch["ports"] if p["direction"] == "output"]
                for t in thru:
                    w_in = [d for d in n["connections"] if d[1] == f"{ch['name']}.{t}"]
                    w_out = [d for d in n["connections"] if d[0].split(".")[0] == ch["name"] and "." in d[0]
                             and d[0].split(".")[1] in outs]
                    if w_in and w_out:
                        best.append((w_in[0], w_out[0]))
        if not best:
            return None
        w_in, w_out = rng.choice(best)
        w_in[0], w_out[0] = w_out[0], w_in[0]
        return r, kind
    if kind == "duplicate-connection":
        # the very same wire listed twice: both of its ends are then connected twice
        cands = [n for n in nodes if n["connections"]]
        if not cands:
            return None
        n = rng.choice(cands)
        n["connections"].append(list(rng.choice(n["connections"])))
        return r, kind
    if kind == "drop-connection":
        cands = [n for n in nodes if n["connections"]]
        if not cands:
            return None
        n = rng.choice(cands)
        n["connections"].pop(rng.randrange(len(n["connections"])))
    elif kind in ("duplicate-target", "duplicate-source"):
        cands = [n for n in nodes if len(n["connections"]) >= 2]
        if not cands:
            return None
        n = rng.choice(cands)
        a, b = rng.sample(n["connections"], 2)
        n["connections"].append([a[0], b[1]])   # a's source now has two wires, b's target has two wires
    elif kind == "cycle":
        # swap the sources of two wires so that a wire runs from a later child back into an earlier one
        best = None
        for n in nodes:
            inner = [c for c in n["connections"] if "." in c[0] and "." in c[1] and c[0].split(".")[0] != c[1].split(".")[0]]
            for c in inner:
                up, down = c[0].split(".")[0], c[1].split(".")[0]
                # a wire into `up` and a wire out of `down`
                into_up = [d for d in n["connections"] if d[1].split(".")[0] == up and "." in d[1]]
                out_down = [d for d in n["connections"] if d[0].split(".")[0] == down and "." in d[0]]
                if into_up and out_down:
                    best = (n, into_up[0], out_down[0])
        if best is None:
            return None
        n, w_in, w_out = best
        w_in[0], w_out[0] = w_out[0], w_in[0]
    elif kind == "rep-two-children":
        cands = [n for n in nodes if n.get("repetition")]
        if not cands:
            return None
        n = rng.choice(cands)
        n["children"].append({"name": "extra", "type": None, "input_params": [], "local_variables": [], "linked_params": [],
                              "ports": [], "resources": [], "connections": [], "repetition": None, "children": []})
    elif kind == "rep-no-child":
        cands = [n for n in nodes if n.get("repetition") and not n["ports"]]
        if not cands:
            return None
        n = rng.choice(cands)
        n["children"], n["connections"], n["linked_params"] = [], [], []
    else:
        cands = [n for n in nodes if n.get("repetition")]
        if not cands:
            return None
        n = rng.choice(cands)
        # the resource of its own bears a fresh name, or the name of a resource of the repeated child (a constant, or the very
        # reference `child.resource` that preprocessing would add: the routine is ill-formed all the same)
        kid_res = [(c["name"], x["name"]) for c in n["children"] for x in c["resources"]]
        if kid_res and rng.random() < 0.6:
            cn, rn = rng.choice(kid_res)
            n["resources"].append({"name": rn, "type": "additive", "value": rng.choice([E.num(5), E.sym(f"{cn}.{rn}")])})
        else:
            n["resources"].append({"name": "own_cost", "type": "additive", "value": E.num(1)})
    return r, kind



def native_numbers(doc, as_float=False):
    """QREF values that are plain integer literals become native ints (or, for the float twin, integer-valued floats)."""
    import copy
    import re

    d = copy.deepcopy(doc)

    def conv(v):
        if isinstance(v, str) and re.fullmatch(r"\(?-?\d+\)?", v):
            n = int(v.strip("()"))
            return float(n) if as_float else n
        return v

    def go(n):
        for p in n.get("ports", []):
            p["size"] = conv(p["size"])
        for r in n.get("resources", []):
            r["value"] = conv(r["value"])
        rep = n.get("repetition")
        if rep:
            rep["count"] = conv(rep["count"]) if not as_float else rep["count"]
            for k, v in list(rep["sequence"].items()):
                if k in ("multiplier", "initial_term", "difference", "ratio", "sum", "prod"):     # the fields the schema admits numbers for
                    rep["sequence"][k] = conv(v)
                    m = re.fullmatch(r"\(?(-?\d+)\s*/\s*(\d+)\)?", v) if isinstance(v, str) else None
                    if m and int(m.group(2)) in (2, 4, 8) and not as_float:
                        # a fraction a double holds exactly, handed over as a native FLOAT (multiplier: 2.5)
                        rep["sequence"][k] = int(m.group(1)) / int(m.group(2))
        for c in n.get("children", []):
            go(c)
    go(d["program"])
    return d
